#!/bin/bash
# Repeatability sweep: every quick check under several VERIF_SEED values on the tree as it is.
# usage: sweep.sh "<seeds>" [tier] [ids...]
SEEDS=${1:-"2 3 4 5 6"}; TIER=${2:-quick}; shift 2
IDS=${@:-"C01 C02 C03 C04 C05 C06 C07 C08 C09 C10 C11 C12 C13 C14 C15 C16 C17 C18 C19 C20"}
for s in $SEEDS; do for p in $IDS; do
  out=$(VERIF_SEED=$s python3 check.py $p --tier $TIER --no-evidence 2>&1 | grep -E "^(VIOLATION|INCONCLUSIVE|SUMMARY|CHECK-NOT-RUN)" | cut -c1-260)
  echo "seed=$s $out" | tr '\n' '|'; echo
done; done
