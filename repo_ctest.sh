#!/bin/bash
# Builds /repo in /repo/_build (the baseline build dir) and runs the pinned suite without valgrind.
R=${1:-/repo}
cmake -S $R -B $R/_build >/dev/null 2>&1 || { echo "CMAKE CONFIGURE FAILED"; exit 1; }
if ! cmake --build $R/_build -j16 > /tmp/repo_build.log 2>&1; then echo "BUILD FAILED"; grep -E "error" /tmp/repo_build.log | head -10; exit 1; fi
cd $R/_build && USE_VALGRIND=0 ctest -j16 --timeout 900 2>&1 | tail -4
