#!/bin/bash
# Builds /repo in /repo/_build (the baseline build dir) and runs the pinned suite without valgrind.
R=${1:-/repo}
cmake -S $R -B $R/_build >/dev/null 2>&1 && cmake --build $R/_build -j16 2>&1 | grep -E "error|warning: " | head
cd $R/_build && USE_VALGRIND=0 ctest -j16 --timeout 900 2>&1 | tail -4
