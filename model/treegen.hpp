// Generator of Val trees that are then built through the json-c API.
#pragma once
#include "engine.hpp"
#include "val.hpp"
#include "textgen.hpp"
#include <cmath>

namespace vf {

struct TreeGenOpts {
	int max_depth = 5;
	size_t max_nodes = 40;
	bool any_bytes = true;       // strings with control bytes, NUL, invalid UTF-8
	bool doubles = true;
	bool nonfinite = false;      // NaN / +-Inf leaves
	bool retained_text = true;   // new_double_s nodes
	bool nulls = true;
	std::vector<std::string> key_pool; // if non-empty, keys come from here
};

struct TreeGen {
	Choices &c;
	TreeGenOpts o;
	size_t nodes = 0;
	bool f_double = false, f_escape = false, f_nul = false, f_invalid_utf8 = false, f_u64 = false, f_retained = false;
	TreeGen(Choices &cc, const TreeGenOpts &oo) : c(cc), o(oo) {}

	std::string bytes_string(size_t maxlen, bool allow_nul)
	{
		std::string s;
		size_t n = c.len(maxlen);
		for (size_t i = 0; i < n; i++)
		{
			switch (o.any_bytes ? c.pick({40, 10, 8, 8, 6, 6, 3}) : 0)
			{
			case 0: s += (char)c.range(0x20, 0x7e); break;
			case 1: {
				static const char sp[] = {'"', '\\', '/', '\b', '\f', '\n', '\r', '\t', 0x7f};
				s += sp[c.pickn(9)];
				f_escape = true;
				break;
			}
			case 2: {
				char ch = (char)c.range(allow_nul ? 0 : 1, 0x1f);
				if (ch == 0)
					f_nul = true;
				s += ch;
				f_escape = true;
				break;
			}
			case 3: { // valid multi-byte
				TextGenOpts to;
				Choices &cc = c;
				uint32_t cp;
				switch (cc.pick({3, 3, 2}))
				{
				case 0: cp = (uint32_t)cc.range(0x80, 0x7ff); break;
				case 1:
					cp = (uint32_t)cc.range(0x800, 0xffff);
					if (cp >= 0xd800 && cp <= 0xdfff)
						cp = 0xfffd;
					break;
				default: cp = (uint32_t)cc.range(0x10000, 0x10ffff); break;
				}
				utf8_append(s, cp);
				break;
			}
			case 4: s += (char)c.range(0x80, 0xff); break; // stray high byte
			case 5:
				if (allow_nul)
				{
					s += '\0';
					f_nul = true;
					f_escape = true;
				}
				else
					s += 'z';
				break;
			default: s += "\xed\xa0\x80"; break; // encoded surrogate (invalid UTF-8)
			}
		}
		if (!valid_utf8(s))
			f_invalid_utf8 = true;
		return s;
	}
	double finite_double()
	{
		uint64_t bits;
		switch (c.pick({5, 3, 3, 2, 2}))
		{
		case 0: bits = c.bits(8); break;                                                                      // uniform over bit patterns
		case 1: bits = ((uint64_t)c.range(0x3e0, 0x420) << 52) | (c.bits(8) & ((1ULL << 52) - 1)) | ((uint64_t)c.range(0, 1) << 63); break;
		case 2: { // "nice" decimals
			static const double nice[] = {0.0, -0.0, 1.0, -1.0, 0.5, 1.5, 0.1, 0.2, 0.3, 100.0, 1e20, 1.5e20, 1e21, 1e22, 1e23, 1e-5, 1.25e-10, 1e100, 1e-100,
			                              123456789.0, 1e15, 1e16, 1e17, 9007199254740992.0, 9007199254740993.0, 4294967296.0, 0.30000000000000004,
			                              2147483648.0, 9223372036854775808.0, 18446744073709551616.0, 1e300, 1e-300, 5e-324, 2.2250738585072014e-308,
			                              1.7976931348623157e308, 3.0e10, 120.0, 1200000.0, 10.0, 1e1, 0.001, 1000.5, 250.0};
			bits = dbl_bits(nice[c.pickn(sizeof(nice) / sizeof(nice[0]))]);
			break;
		}
		case 3: bits = c.range(0, 1ULL << 53) | ((uint64_t)c.range(0, 1) << 63); break; // subnormal / tiny
		default: { // small integers and k/2^n
			double v = (double)c.irange(-100000, 100000) / (double)(1 << c.range(0, 10));
			bits = dbl_bits(v);
			break;
		}
		}
		if (((bits >> 52) & 0x7ff) == 0x7ff)
			bits &= ~(1ULL << 62); // make it finite
		return bits_dbl(bits);
	}
	Val leaf_number()
	{
		switch (c.pick({4, 3, 2, o.doubles ? 5u : 0u, (o.doubles && o.retained_text) ? 2u : 0u, (o.doubles && o.nonfinite) ? 1u : 0u}))
		{
		case 0: return Val::i64(c.irange(-1000, 1000));
		case 1: { // int64 boundaries / random
			int64_t v;
			switch (c.pickn(4))
			{
			case 0: v = INT64_MAX - (int64_t)c.range(0, 3); break;
			case 1: v = INT64_MIN + (int64_t)c.range(0, 3); break;
			case 2: v = (int64_t)c.bits(8); break;
			default: v = ((int64_t)1 << c.range(30, 33)) + c.irange(-2, 2); break;
			}
			return Val::i64(v);
		}
		case 2: { // uint64 nodes, including small ones
			f_u64 = true;
			uint64_t v;
			switch (c.pickn(4))
			{
			case 0: v = UINT64_MAX - c.range(0, 3); break;
			case 1: v = (uint64_t)INT64_MAX + c.range(0, 3); break;
			case 2: v = c.bits(8); break;
			default: v = c.range(0, 100); break;
			}
			return Val::u64(v, true);
		}
		case 3:
			f_double = true;
			return Val::dbl(finite_double());
		case 4: { // retained text: a non-integer-shaped valid number text and the double it denotes
			f_double = f_retained = true;
			TextGenOpts to;
			to.big_numbers = false;
			TextGen g(c, to);
			switch (c.pickn(2))
			{
			case 0: // fraction
				if (c.coin(30))
					g.out += '-';
				g.digits(1 + c.pickn(4), true);
				g.out += '.';
				g.digits(1 + c.pickn(6), false);
				break;
			default:
				if (c.coin(30))
					g.out += '-';
				g.digits(1 + c.pickn(3), true);
				if (c.coin(50))
				{
					g.out += '.';
					g.digits(1 + c.pickn(4), false);
				}
				g.exponent_part();
				break;
			}
			Val v = Val::dbl(strtod(g.out.c_str(), nullptr));
			if (!std::isfinite(v.d))
				return Val::dbl(1.5);
			if (correctly_rounded(g.out, v.d) == 1)
				v.numtext = g.out;
			return v;
		}
		default: {
			static const double nf[] = {NAN, INFINITY, -INFINITY};
			f_double = true;
			return Val::dbl(nf[c.pickn(3)]);
		}
		}
	}
	std::string key()
	{
		if (!o.key_pool.empty())
			return o.key_pool[c.pickn(o.key_pool.size())];
		return bytes_string(8, false);
	}
	// root: mostly a container
	Val root() { return value(0, c.coin(75)); }
	bool f_wide = false;
	Val scalar()
	{
		switch (c.pick({o.nulls ? 2u : 0u, 2, 8, 6}))
		{
		case 0: return Val::null();
		case 1: return Val::boolean(c.coin(50));
		case 2: return leaf_number();
		default: return Val::str(bytes_string(14, true));
		}
	}
	// containers with 9..70 (rarely 600) scalar children: array and hash-table growth points
	Val wide(bool array)
	{
		f_wide = true;
		size_t n = c.coin(10) ? (size_t)c.range(70, 600) : (size_t)c.range(9, 70);
		Val v = array ? Val::arr() : Val::obj();
		for (size_t i = 0; i < n; i++)
		{
			if (array)
				v.a.push_back(scalar());
			else
				v.set(o.key_pool.empty() ? "k" + std::to_string(i) : o.key_pool[c.pickn(o.key_pool.size())] + std::to_string(i), scalar());
		}
		return v;
	}
	Val value(int depth, bool want_container = false)
	{
		nodes++;
		if (depth < o.max_depth && c.coin(2))
			return wide(c.coin(50));
		bool can_nest = depth < o.max_depth && nodes < o.max_nodes;
		size_t kind = (want_container && can_nest) ? 4 + c.pickn(2)
		                                           : c.pick({o.nulls ? 6u : 0u, 6, 30, 22, can_nest ? 22u : 0u, can_nest ? 22u : 0u});
		switch (kind)
		{
		case 0: return Val::null();
		case 1: return Val::boolean(c.coin(50));
		case 2: return leaf_number();
		case 3: return Val::str(bytes_string(14, true));
		case 4: {
			SpanGuard g(c);
			Val a = Val::arr();
			size_t n = c.len(6) + (want_container ? 1 : 0);
			for (size_t i = 0; i < n && nodes < o.max_nodes + 6; i++)
				a.a.push_back(value(depth + 1));
			return a;
		}
		default: {
			SpanGuard g(c);
			Val ob = Val::obj();
			size_t n = c.len(6) + (want_container ? 1 : 0);
			for (size_t i = 0; i < n && nodes < o.max_nodes + 6; i++)
			{
				std::string k = key();
				Val v = value(depth + 1);
				ob.set(k, v);
			}
			return ob;
		}
		}
	}
};

} // namespace vf
