// Grammar-directed generator of RFC 8259-valid JSON *texts* (not serialised trees):
// every escape form, surrogate combinations, raw multi-byte UTF-8, number shape
// classes incl. constructed rounding midpoints, whitespace layouts, duplicate keys.
#pragma once
#include "engine.hpp"
#include "bignat.hpp"
#include "val.hpp"

namespace vf {

struct TextGenOpts {
	int max_depth = 6;       // containers that may enclose a value
	bool allow_nul_key = true;
	bool allow_huge_int = true;
	bool allow_dup_key = true;
	bool big_numbers = true; // long mantissas / midpoints
	size_t max_nodes = 60;
};

struct TextGen {
	Choices &c;
	TextGenOpts o;
	std::string out;
	size_t nodes = 0;
	// feature flags for labels / non-triviality
	bool f_escape = false, f_nonascii = false, f_surrogate = false, f_frac = false, f_boundary = false,
	     f_dup = false, f_midpoint = false, f_longnum = false, f_nulkey = false, f_hugeint = false;
	int f_nesting = 0;
	TextGen(Choices &cc, const TextGenOpts &oo) : c(cc), o(oo) {}

	void ws()
	{
		if (!c.coin(25))
			return;
		size_t n = 1 + c.pickn(3);
		static const char w[] = {' ', '\t', '\n', '\r'};
		for (size_t i = 0; i < n; i++)
			out += w[c.pickn(4)];
	}
	void hex4(uint32_t u)
	{
		static const char *lo = "0123456789abcdef", *up = "0123456789ABCDEF";
		out += "\\u";
		for (int s = 12; s >= 0; s -= 4)
			out += (c.coin(40) ? up : lo)[(u >> s) & 15];
	}
	uint32_t scalar()
	{
		switch (c.pick({3, 3, 3, 2, 2}))
		{
		case 0: return (uint32_t)c.range(0x80, 0x7ff);
		case 1: {
			uint32_t v = (uint32_t)c.range(0x800, 0xffff);
			if (v >= 0xd800 && v <= 0xdfff)
				v = 0xfffd;
			return v;
		}
		case 2: return (uint32_t)c.range(0x10000, 0x10ffff);
		case 3: {
			static const uint32_t edge[] = {0x80, 0x7ff, 0x800, 0xd7ff, 0xe000, 0xfffd, 0xfffe, 0xffff, 0x10000, 0x10ffff, 0xe4, 0x20ac};
			return edge[c.pickn(12)];
		}
		default: return (uint32_t)c.range(0x20, 0x7e);
		}
	}
	void string_item(bool in_key)
	{
		switch (c.pick({30, 10, 10, 10, 6, 4, 4, 3, 3, 2, 2}))
		{
		case 0: { // raw printable ASCII (not " or \)
			char ch = (char)c.range(0x20, 0x7e);
			if (ch == '"' || ch == '\\')
				ch = '/';
			out += ch;
			break;
		}
		case 1: { // raw multi-byte UTF-8
			uint32_t cp = scalar();
			if (cp < 0x80 && (cp == '"' || cp == '\\'))
				cp = 'x';
			utf8_append(out, cp);
			if (cp >= 0x80)
				f_nonascii = true;
			break;
		}
		case 2: { // short escape
			static const char *se[] = {"\\\"", "\\\\", "\\/", "\\b", "\\f", "\\n", "\\r", "\\t"};
			out += se[c.pickn(8)];
			f_escape = true;
			break;
		}
		case 3: { // \uXXXX non-surrogate
			uint32_t u = c.coin(30) ? (uint32_t)c.range(0, 0x7f) : (uint32_t)c.range(0, 0xffff);
			if (u >= 0xd800 && u <= 0xdfff)
				u = 0xfffd;
			if (u == 0 && in_key)
			{
				if (!o.allow_nul_key)
					u = 1;
				else
					f_nulkey = true;
			}
			hex4(u);
			f_escape = true;
			break;
		}
		case 4: // surrogate pair
			hex4((uint32_t)c.range(0xd800, 0xdbff));
			hex4((uint32_t)c.range(0xdc00, 0xdfff));
			f_escape = f_surrogate = true;
			break;
		case 5: // lone high
			hex4((uint32_t)c.range(0xd800, 0xdbff));
			f_escape = f_surrogate = true;
			break;
		case 6: // lone low
			hex4((uint32_t)c.range(0xdc00, 0xdfff));
			f_escape = f_surrogate = true;
			break;
		case 7: // high followed by a non-low \u escape (possibly another high)
			hex4((uint32_t)c.range(0xd800, 0xdbff));
			hex4(c.coin(30) ? (uint32_t)c.range(0xd800, 0xdbff) : (uint32_t)c.range(0x20, 0xd7ff));
			f_escape = f_surrogate = true;
			break;
		case 8: { // high followed by a short escape or a raw char
			hex4((uint32_t)c.range(0xd800, 0xdbff));
			if (c.coin(50))
				out += "\\n";
			else
				out += 'z';
			f_escape = f_surrogate = true;
			break;
		}
		case 9: out += (char)0x7f; break;
		default: { // \u0000 or low control escapes
			uint32_t u = (uint32_t)c.range(in_key && !o.allow_nul_key ? 1 : 0, 0x1f);
			if (u == 0 && in_key)
				f_nulkey = true;
			hex4(u);
			f_escape = true;
			break;
		}
		}
	}
	std::string string_text(bool in_key)
	{
		size_t s = out.size();
		out += '"';
		size_t n = c.len(in_key ? 8 : 14);
		if (!in_key && c.coin(1))
		{
			// long strings: the parser's scratch buffer and the string node's storage grow several times
			n = (size_t)c.range(40, c.coin(20) ? 5000 : 400);
			f_longstr = true;
		}
		for (size_t i = 0; i < n; i++)
			string_item(in_key);
		out += '"';
		return out.substr(s);
	}
	static std::string u128_dec(unsigned __int128 v)
	{
		if (v == 0)
			return "0";
		std::string s;
		while (v)
		{
			s += (char)('0' + (int)(v % 10));
			v /= 10;
		}
		std::reverse(s.begin(), s.end());
		return s;
	}
	void digits(size_t n, bool nonzero_first)
	{
		for (size_t i = 0; i < n; i++)
		{
			int d = (int)c.range(0, 9);
			if (i == 0 && nonzero_first && d == 0)
				d = 1;
			out += (char)('0' + d);
		}
	}
	void exponent_part()
	{
		out += c.coin(50) ? 'e' : 'E';
		switch (c.pickn(3))
		{
		case 0: break;
		case 1: out += '+'; break;
		default: out += '-'; break;
		}
		if (c.coin(15))
			out += std::string(1 + c.pickn(3), '0'); // leading zeros in the exponent are legal
		size_t nd = 1 + c.pick({6, 3, 1});
		digits(nd, false);
	}
	void number()
	{
		switch (c.pick({14, 10, 5, 4, 12, 12, o.big_numbers ? 8u : 0u, o.big_numbers ? 5u : 0u, 5}))
		{
		case 0: // small int
			if (c.coin(30))
				out += '-';
			digits(1 + c.pickn(4), true);
			break;
		case 1: { // boundary ints
			static const int ks[] = {31, 32, 53, 63, 64};
			int k = ks[c.pickn(5)];
			int d = c.irange(-3, 3);
			bool neg = c.coin(50);
			unsigned __int128 v = ((unsigned __int128)1 << k);
			if (d < 0)
				v -= (unsigned)(-d);
			else
				v += (unsigned)d;
			bool huge = neg ? v > ((unsigned __int128)1 << 63) : v > (unsigned __int128)UINT64_MAX;
			if (huge && !o.allow_huge_int)
				v = ((unsigned __int128)1 << 63) - 1;
			else if (huge)
				f_hugeint = true;
			out += (neg ? "-" : "") + u128_dec(v);
			f_boundary = true;
			break;
		}
		case 2: { // long digit strings
			if (c.coin(40))
				out += '-';
			size_t nd = (size_t)c.range(17, o.allow_huge_int ? 26 : 18);
			if (nd >= 20)
				f_hugeint = true; // may or may not exceed; harness uses the reference parser's flag
			digits(nd, true);
			break;
		}
		case 3: out += c.coin(50) ? "-0" : "0"; break;
		case 4: { // fraction
			if (c.coin(30))
				out += '-';
			if (c.coin(30))
				out += '0';
			else
				digits(1 + c.pickn(6), true);
			out += '.';
			digits(1 + c.pickn(c.coin(20) ? 20 : 6), false);
			f_frac = true;
			break;
		}
		case 5: { // exponent forms
			if (c.coin(30))
				out += '-';
			if (c.coin(20))
				out += '0';
			else
				digits(1 + c.pickn(5), true);
			if (c.coin(50))
			{
				out += '.';
				digits(1 + c.pickn(8), false);
			}
			exponent_part();
			f_frac = true;
			break;
		}
		case 6: { // constructed from a double: exact text, rounding midpoint, midpoint +- 1 in the last place
			uint64_t bits;
			switch (c.pick({4, 2, 2, 1}))
			{
			case 0: bits = c.bits(8) & 0x7fffffffffffffffULL; break;
			case 1: bits = ((uint64_t)c.range(0x3c0, 0x440) << 52) | (c.bits(8) & ((1ULL << 52) - 1)); break; // moderate exponents
			case 2: bits = c.range(0, 1ULL << 53); break;                                                     // subnormals / tiny
			default: bits = 0x7fefffffffffffffULL - c.range(0, 3); break;                                     // near DBL_MAX
			}
			if ((bits >> 52) >= 0x7ff)
				bits = 0x7fefffffffffffffULL;
			std::string t = c.coin(30) ? exact_text(bits) : midpoint_text(bits);
			// optional perturbation of the last digit (just above / just below the boundary)
			int pert = (int)c.pickn(3);
			if (pert && t.find('.') == std::string::npos)
				t += ".0"; // perturb a fraction digit, never the integer part ("0" + "1" would give a leading zero)
			if (pert && !t.empty())
			{
				char &last = t[t.size() - 1];
				if (pert == 1 && last < '9')
					last++;
				else if (pert == 2 && last > '1')
					last--;
				else
					t += "1";
			}
			if (t.find('.') == std::string::npos)
				t += c.coin(50) ? ".0" : "e0";
			// optionally move the decimal point into an exponent: d.ddd e N  (same value)
			if (c.coin(40))
			{
				size_t dot = t.find('.');
				if (dot != std::string::npos && t.find('e') == std::string::npos)
				{
					std::string ip = t.substr(0, dot), fp = t.substr(dot + 1);
					size_t nz = 0;
					while (nz + 1 < ip.size() && ip[nz] == '0')
						nz++;
					ip = ip.substr(nz);
					if (ip.size() > 1)
					{
						long e = (long)ip.size() - 1;
						t = ip.substr(0, 1) + "." + ip.substr(1) + fp + "e" + std::to_string(e);
					}
					else if (ip == "0")
					{
						size_t z = 0;
						while (z < fp.size() && fp[z] == '0')
							z++;
						if (z < fp.size())
						{
							std::string rest = fp.substr(z + 1);
							t = fp.substr(z, 1) + "." + (rest.empty() ? "0" : rest) + "e-" + std::to_string(z + 1);
						}
					}
				}
			}
			if (c.coin(30))
				out += '-';
			out += t;
			f_frac = f_midpoint = true;
			break;
		}
		case 7: { // long mantissa
			if (c.coin(30))
				out += '-';
			size_t ni = (size_t)c.range(1, 400), nf = (size_t)c.range(0, 400);
			digits(ni, true);
			if (nf || c.coin(50))
			{
				out += '.';
				digits(nf ? nf : 1, false);
			}
			if (c.coin(60))
				exponent_part();
			else if (nf == 0 && out.find('.') == std::string::npos)
				out += "e0";
			f_frac = f_longnum = true;
			break;
		}
		default: { // overflow / underflow neighbourhood
			static const char *edge[] = {"1.7976931348623157e308", "1.7976931348623158e308", "1.7976931348623159e308",
			                             "1.797693134862315807e308", "1.797693134862315808e308", "1e309", "1e400",
			                             "4.9e-324", "5e-324", "2.4703282292062327e-324", "2.4703282292062328e-324",
			                             "2.470328229206232720e-324", "2.470328229206232721e-324", "1e-400", "2.2250738585072014e-308",
			                             "2.2250738585072011e-308", "9007199254740993.0", "9007199254740992.5",
			                             "0.1", "0.30000000000000004", "123456789012345678901234567890.0", "1E+2", "0e0", "0.0",
			                             "0.0000000000000000000000000000000000000000000001e46", "1e00000000000000000000010", "1e-0",
			                             "9E-339999999999999990033", "1e+99999999999999999999", "0e-77779573856", "5e-4294967296", "5e4294967297"};
			if (c.coin(20))
				out += '-';
			out += edge[c.pickn(sizeof(edge) / sizeof(edge[0]))];
			f_frac = true;
			break;
		}
		}
	}
	bool f_wide = false, f_longstr = false;
	void scalar_value()
	{
		switch (c.pick({2, 1, 1, 8, 6}))
		{
		case 0: out += "null"; break;
		case 1: out += "true"; break;
		case 2: out += "false"; break;
		case 3: number(); break;
		default: string_text(false); break;
		}
	}
	// a container with 9..70 (rarely up to 600) scalar children: crosses the array (32, 64 ...) and object
	// (11, 22, 43 ...) growth points of the library
	void wide(bool array)
	{
		f_wide = true;
		size_t n = c.coin(10) ? (size_t)c.range(70, 600) : (size_t)c.range(9, 70);
		out += array ? '[' : '{';
		for (size_t i = 0; i < n; i++)
		{
			if (i)
				out += ',';
			ws();
			if (!array)
			{
				out += "\"k" + std::to_string(c.coin(5) ? c.range(0, n) : i) + "\":";
			}
			scalar_value();
		}
		out += array ? ']' : '}';
	}
	// force > 0: this value must be a container and one of its children continues the spine (deep nesting)
	void value(int depth, int force = 0)
	{
		nodes++;
		if (force == 0 && depth < o.max_depth && c.coin(2))
		{
			wide(c.coin(50));
			if (depth + 1 > f_nesting)
				f_nesting = depth + 1;
			return;
		}
		bool can_nest = depth < o.max_depth && nodes < o.max_nodes;
		size_t kind = force > 0 ? 5 + c.pickn(2) : c.pick({6, 4, 4, 22, 22, can_nest ? 22u : 0u, can_nest ? 22u : 0u});
		switch (kind)
		{
		case 0: out += "null"; break;
		case 1: out += "true"; break;
		case 2: out += "false"; break;
		case 3: number(); break;
		case 4: string_text(false); break;
		case 5: {
			SpanGuard g(c);
			out += '[';
			ws();
			size_t n = force > 0 ? 1 + c.pickn(3) : c.len(6);
			size_t spine = force > 0 ? c.pickn(n) : (size_t)-1;
			for (size_t i = 0; i < n && (nodes < o.max_nodes + 8 || i <= spine); i++)
			{
				if (i)
				{
					out += ',';
				}
				ws();
				value(depth + 1, i == spine ? force - 1 : 0);
				ws();
			}
			out += ']';
			if (depth + 1 > f_nesting)
				f_nesting = depth + 1;
			break;
		}
		default: {
			SpanGuard g(c);
			out += '{';
			ws();
			size_t n = force > 0 ? 1 + c.pickn(3) : c.len(6);
			size_t spine = force > 0 ? c.pickn(n) : (size_t)-1;
			std::vector<std::string> keys;
			for (size_t i = 0; i < n && (nodes < o.max_nodes + 8 || i <= spine); i++)
			{
				if (i)
					out += ',';
				ws();
				if (o.allow_dup_key && !keys.empty() && c.coin(12))
				{
					out += keys[c.pickn(keys.size())];
					f_dup = true;
				}
				else
					keys.push_back(string_text(true));
				ws();
				out += ':';
				ws();
				value(depth + 1, i == spine ? force - 1 : 0);
				ws();
			}
			out += '}';
			if (depth + 1 > f_nesting)
				f_nesting = depth + 1;
			break;
		}
		}
	}
	// a whole document: optional surrounding whitespace
	std::string document(int force_depth = 0)
	{
		out.clear();
		ws();
		value(0, force_depth);
		ws();
		return out;
	}
};

} // namespace vf
