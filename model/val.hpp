// Plain value tree (the reference model's data type), build()/dump() through json-c's
// public API only, and comparison helpers (DESIGN section 4).
#pragma once
#include "common.hpp"
#include "bignat.hpp"
#include <cmath>

namespace vf {

struct Val {
	enum K { Null, Bool, Int, Dbl, Str, Arr, Obj } k = Null;
	bool b = false;
	// Int: value = (neg ? -1 : 1) * mag ; huge: magnitude beyond what 64 bits of that sign can hold
	bool neg = false, huge = false, as_u64 = false;
	uint64_t mag = 0;
	double d = 0;
	std::string numtext; // Dbl: source text (reference parser) or retained text for new_double_s
	bool from_text = false; // Dbl produced by the reference parser: compare with the rounding judge
	std::string s;
	std::vector<Val> a;
	std::vector<std::pair<std::string, Val>> o;

	static Val null() { return Val(); }
	static Val boolean(bool v)
	{
		Val r;
		r.k = Bool;
		r.b = v;
		return r;
	}
	static Val i64(int64_t v)
	{
		Val r;
		r.k = Int;
		r.neg = v < 0;
		r.mag = v < 0 ? (uint64_t)0 - (uint64_t)v : (uint64_t)v;
		return r;
	}
	static Val u64(uint64_t v, bool as_u = true)
	{
		Val r;
		r.k = Int;
		r.mag = v;
		r.as_u64 = as_u;
		return r;
	}
	static Val dbl(double v)
	{
		Val r;
		r.k = Dbl;
		r.d = v;
		return r;
	}
	static Val str(const std::string &v)
	{
		Val r;
		r.k = Str;
		r.s = v;
		return r;
	}
	static Val arr()
	{
		Val r;
		r.k = Arr;
		return r;
	}
	static Val obj()
	{
		Val r;
		r.k = Obj;
		return r;
	}
	Val *find(const std::string &key)
	{
		for (auto &kv : o)
			if (kv.first == key)
				return &kv.second;
		return nullptr;
	}
	const Val *find(const std::string &key) const { return const_cast<Val *>(this)->find(key); }
	// insertion-ordered map semantics: existing key keeps its position
	void set(const std::string &key, const Val &v)
	{
		if (Val *p = find(key))
			*p = v;
		else
			o.emplace_back(key, v);
	}
	bool erase(const std::string &key)
	{
		for (size_t i = 0; i < o.size(); i++)
			if (o[i].first == key)
			{
				o.erase(o.begin() + i);
				return true;
			}
		return false;
	}
	size_t count_nodes() const
	{
		size_t n = 1;
		for (auto &x : a)
			n += x.count_nodes();
		for (auto &kv : o)
			n += kv.second.count_nodes();
		return n;
	}
	int nesting() const
	{
		int m = 0;
		for (auto &x : a)
			m = std::max(m, x.nesting());
		for (auto &kv : o)
			m = std::max(m, kv.second.nesting());
		return (k == Arr || k == Obj) ? m + 1 : 0;
	}
};

inline std::string int_text(const Val &v)
{
	return std::string(v.neg && v.mag ? "-" : "") + std::to_string(v.mag) + (v.huge ? "(beyond 64 bits)" : "");
}

inline std::string show(const Val &v, int maxlen = 600)
{
	std::string o;
	std::function<void(const Val &)> rec = [&](const Val &x) {
		if ((int)o.size() > maxlen)
			return;
		switch (x.k)
		{
		case Val::Null: o += "null"; break;
		case Val::Bool: o += x.b ? "true" : "false"; break;
		case Val::Int: o += "int(" + int_text(x) + (x.as_u64 ? "u" : "") + ")"; break;
		case Val::Dbl: {
			char b[64];
			snprintf(b, sizeof b, "dbl(%.17g/0x%016llx", x.d, (unsigned long long)dbl_bits(x.d));
			o += b;
			if (!x.numtext.empty())
				o += " text=" + quote(x.numtext, 60);
			o += ")";
			break;
		}
		case Val::Str: o += "str" + quote(x.s, 80); break;
		case Val::Arr:
			o += "[";
			for (size_t i = 0; i < x.a.size(); i++)
			{
				if (i)
					o += ",";
				rec(x.a[i]);
			}
			o += "]";
			break;
		case Val::Obj:
			o += "{";
			for (size_t i = 0; i < x.o.size(); i++)
			{
				if (i)
					o += ",";
				o += quote(x.o[i].first, 60) + ":";
				rec(x.o[i].second);
			}
			o += "}";
			break;
		}
	};
	rec(v);
	if ((int)o.size() > maxlen)
		o = o.substr(0, maxlen) + "...";
	return o;
}

inline uint64_t hash_val(const Val &v, uint64_t h = 0xcbf29ce484222325ULL)
{
	h = hash_u64((uint64_t)v.k, h);
	switch (v.k)
	{
	case Val::Bool: h = hash_u64(v.b, h); break;
	case Val::Int: h = hash_u64(v.mag, hash_u64(v.neg * 2 + v.as_u64, h)); break;
	case Val::Dbl: h = hash_str(v.numtext, hash_u64(dbl_bits(v.d), h)); break;
	case Val::Str: h = hash_str(v.s, h); break;
	case Val::Arr:
		for (auto &x : v.a)
			h = hash_val(x, h);
		break;
	case Val::Obj:
		for (auto &kv : v.o)
			h = hash_val(kv.second, hash_str(kv.first, h));
		break;
	default: break;
	}
	return h;
}

// ---- json-c <-> Val, public accessors only --------------------------------------
// how string nodes get their contents: 0 constructor; 1 created short then grown with set_string_len
// (separately allocated storage); 2 created long then shrunk (storage larger than the contents); 3 grown, then cut
// back to a prefix taken from its own buffer
inline int &build_str_mode()
{
	static int m = 0;
	return m;
}
inline json_object *build_string(const std::string &s)
{
	int m = build_str_mode();
	if (m == 1)
	{
		json_object *j = json_object_new_string_len(s.data(), s.empty() ? 0 : 1);
		json_object_set_string_len(j, s.data(), (int)s.size());
		return j;
	}
	if (m == 3)
	{
		// created short, grown (separately allocated storage), then cut back to a prefix of its own buffer
		std::string big = s + std::string(20, '#');
		json_object *j = json_object_new_string_len(big.data(), big.empty() ? 0 : 1);
		json_object_set_string_len(j, big.data(), (int)big.size());
		json_object_set_string_len(j, json_object_get_string(j), (int)s.size());
		return j;
	}
	if (m == 2)
	{
		std::string big = s + std::string(20, '#');
		json_object *j = json_object_new_string_len(big.data(), (int)big.size());
		json_object_set_string_len(j, s.data(), (int)s.size());
		return j;
	}
	return json_object_new_string_len(s.data(), (int)s.size());
}
inline json_object *build(const Val &v)
{
	switch (v.k)
	{
	case Val::Null: return nullptr;
	case Val::Bool: return json_object_new_boolean(v.b);
	case Val::Int:
		if (v.neg && v.mag)
			return json_object_new_int64((int64_t)((uint64_t)0 - v.mag));
		if (v.as_u64 || v.mag > (uint64_t)INT64_MAX)
			return json_object_new_uint64(v.mag);
		return json_object_new_int64((int64_t)v.mag);
	case Val::Dbl:
		if (!v.numtext.empty())
			return json_object_new_double_s(v.d, v.numtext.c_str());
		return json_object_new_double(v.d);
	case Val::Str: return build_string(v.s);
	case Val::Arr: {
		json_object *a = json_object_new_array();
		for (auto &x : v.a)
			json_object_array_add(a, build(x));
		return a;
	}
	case Val::Obj: {
		json_object *o = json_object_new_object();
		for (auto &kv : v.o)
			json_object_object_add(o, kv.first.c_str(), build(kv.second));
		return o;
	}
	}
	return nullptr;
}

inline Val dump(json_object *j)
{
	Val r;
	switch (json_object_get_type(j))
	{
	case json_type_null: break;
	case json_type_boolean:
		r.k = Val::Bool;
		r.b = json_object_get_boolean(j) != 0;
		break;
	case json_type_int: {
		r.k = Val::Int;
		uint64_t u = json_object_get_uint64(j);
		int64_t i = json_object_get_int64(j);
		if (u > (uint64_t)INT64_MAX)
			r.mag = u;
		else if (i < 0)
		{
			r.neg = true;
			r.mag = (uint64_t)0 - (uint64_t)i;
		}
		else
			r.mag = (uint64_t)i;
		break;
	}
	case json_type_double:
		r.k = Val::Dbl;
		r.d = json_object_get_double(j);
		break;
	case json_type_string:
		r.k = Val::Str;
		r.s.assign(json_object_get_string(j), (size_t)json_object_get_string_len(j));
		break;
	case json_type_array: {
		r.k = Val::Arr;
		size_t n = json_object_array_length(j);
		r.a.reserve(n);
		for (size_t i = 0; i < n; i++)
			r.a.push_back(dump(json_object_array_get_idx(j, i)));
		break;
	}
	case json_type_object: {
		r.k = Val::Obj;
		json_object_iterator it = json_object_iter_begin(j), e = json_object_iter_end(j);
		while (!json_object_iter_equal(&it, &e))
		{
			r.o.emplace_back(json_object_iter_peek_name(&it), dump(json_object_iter_peek_value(&it)));
			json_object_iter_next(&it);
		}
		break;
	}
	}
	return r;
}

enum DblCmp { DBL_BITS, DBL_VALUE, DBL_JUDGE };

// structural comparison of an expected value with what json-c holds; why gets the first difference
inline bool same_val(const Val &exp, const Val &got, std::string &why, DblCmp dc = DBL_BITS, const std::string &path = "$")
{
	if (exp.k != got.k)
	{
		why = path + ": kind differs, expected " + show(exp, 80) + " got " + show(got, 80);
		return false;
	}
	switch (exp.k)
	{
	case Val::Null: return true;
	case Val::Bool:
		if (exp.b != got.b)
		{
			why = path + ": boolean differs";
			return false;
		}
		return true;
	case Val::Int:
		if (exp.mag != got.mag || ((exp.neg && exp.mag) != (got.neg && got.mag)))
		{
			why = path + ": integer differs, expected " + int_text(exp) + " got " + int_text(got);
			return false;
		}
		return true;
	case Val::Dbl: {
		bool ok;
		if (exp.from_text && dc == DBL_JUDGE)
			ok = correctly_rounded(exp.numtext, got.d) == 1;
		else if (dc == DBL_VALUE)
			ok = (exp.d == got.d) || (std::isnan(exp.d) && std::isnan(got.d));
		else
			ok = dbl_bits(exp.d) == dbl_bits(got.d);
		if (!ok)
		{
			why = path + ": double differs, expected " + show(exp, 120) + " got " + show(got, 120);
			return false;
		}
		return true;
	}
	case Val::Str:
		if (exp.s != got.s)
		{
			why = path + ": string differs, expected " + quote(exp.s, 120) + " (" + std::to_string(exp.s.size()) +
			      " bytes) got " + quote(got.s, 120) + " (" + std::to_string(got.s.size()) + " bytes)";
			return false;
		}
		return true;
	case Val::Arr:
		if (exp.a.size() != got.a.size())
		{
			why = path + ": array length " + std::to_string(exp.a.size()) + " vs " + std::to_string(got.a.size());
			return false;
		}
		for (size_t i = 0; i < exp.a.size(); i++)
			if (!same_val(exp.a[i], got.a[i], why, dc, path + "[" + std::to_string(i) + "]"))
				return false;
		return true;
	case Val::Obj:
		if (exp.o.size() != got.o.size())
		{
			why = path + ": member count " + std::to_string(exp.o.size()) + " vs " + std::to_string(got.o.size()) +
			      " expected " + show(exp, 200) + " got " + show(got, 200);
			return false;
		}
		for (size_t i = 0; i < exp.o.size(); i++)
		{
			if (exp.o[i].first != got.o[i].first)
			{
				why = path + ": member #" + std::to_string(i) + " name " + quote(exp.o[i].first, 80) + " vs " +
				      quote(got.o[i].first, 80);
				return false;
			}
			if (!same_val(exp.o[i].second, got.o[i].second, why, dc, path + "." + quote(exp.o[i].first, 40)))
				return false;
		}
		return true;
	}
	return true;
}

// UTF-8 helpers
inline void utf8_append(std::string &o, uint32_t cp)
{
	if (cp < 0x80)
		o += (char)cp;
	else if (cp < 0x800)
	{
		o += (char)(0xc0 | (cp >> 6));
		o += (char)(0x80 | (cp & 0x3f));
	}
	else if (cp < 0x10000)
	{
		o += (char)(0xe0 | (cp >> 12));
		o += (char)(0x80 | ((cp >> 6) & 0x3f));
		o += (char)(0x80 | (cp & 0x3f));
	}
	else
	{
		o += (char)(0xf0 | (cp >> 18));
		o += (char)(0x80 | ((cp >> 12) & 0x3f));
		o += (char)(0x80 | ((cp >> 6) & 0x3f));
		o += (char)(0x80 | (cp & 0x3f));
	}
}
inline bool valid_utf8(const std::string &s)
{
	size_t i = 0, n = s.size();
	while (i < n)
	{
		unsigned char c = s[i];
		if (c < 0x80)
		{
			i++;
			continue;
		}
		int len = (c & 0xe0) == 0xc0 ? 2 : (c & 0xf0) == 0xe0 ? 3 : (c & 0xf8) == 0xf0 ? 4 : 0;
		if (!len || i + len > n)
			return false;
		uint32_t cp = c & (0xff >> (len + 1));
		for (int k = 1; k < len; k++)
		{
			unsigned char cc = s[i + k];
			if ((cc & 0xc0) != 0x80)
				return false;
			cp = (cp << 6) | (cc & 0x3f);
		}
		if ((len == 2 && cp < 0x80) || (len == 3 && cp < 0x800) || (len == 4 && cp < 0x10000) || cp > 0x10ffff ||
		    (cp >= 0xd800 && cp <= 0xdfff))
			return false;
		i += len;
	}
	return true;
}

} // namespace vf
