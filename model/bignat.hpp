// Small big-natural arithmetic and an exact decimal -> binary64 correct-rounding judge.
// Independent of strtod: integer arithmetic only (DESIGN section 4).
#pragma once
#include <map>
#include <cstdint>
#include <cstring>
#include <string>
#include <vector>
#include <algorithm>

namespace vf {

struct BigNat {
	std::vector<uint32_t> l; // little endian, no leading zero limbs
	BigNat() {}
	explicit BigNat(uint64_t v)
	{
		while (v)
		{
			l.push_back((uint32_t)v);
			v >>= 32;
		}
	}
	bool zero() const { return l.empty(); }
	void trim()
	{
		while (!l.empty() && l.back() == 0)
			l.pop_back();
	}
	void mul_small(uint32_t m)
	{
		uint64_t c = 0;
		for (auto &x : l)
		{
			uint64_t t = (uint64_t)x * m + c;
			x = (uint32_t)t;
			c = t >> 32;
		}
		if (c)
			l.push_back((uint32_t)c);
		trim();
	}
	void add_small(uint32_t a)
	{
		uint64_t c = a;
		for (size_t i = 0; c && i < l.size(); i++)
		{
			uint64_t t = (uint64_t)l[i] + c;
			l[i] = (uint32_t)t;
			c = t >> 32;
		}
		if (c)
			l.push_back((uint32_t)c);
	}
	void add(const BigNat &o)
	{
		if (l.size() < o.l.size())
			l.resize(o.l.size(), 0);
		uint64_t c = 0;
		for (size_t i = 0; i < l.size(); i++)
		{
			uint64_t t = (uint64_t)l[i] + (i < o.l.size() ? o.l[i] : 0) + c;
			l[i] = (uint32_t)t;
			c = t >> 32;
		}
		if (c)
			l.push_back((uint32_t)c);
	}
	void shl(unsigned bits)
	{
		if (zero() || bits == 0)
			return;
		unsigned w = bits / 32, b = bits % 32;
		if (b)
		{
			uint32_t c = 0;
			for (auto &x : l)
			{
				uint32_t nx = (x << b) | c;
				c = x >> (32 - b);
				x = nx;
			}
			if (c)
				l.push_back(c);
		}
		if (w)
			l.insert(l.begin(), w, 0);
	}
	void mul_pow10(unsigned e)
	{
		while (e >= 9)
		{
			mul_small(1000000000u);
			e -= 9;
		}
		static const uint32_t p10[] = {1, 10, 100, 1000, 10000, 100000, 1000000, 10000000, 100000000};
		if (e)
			mul_small(p10[e]);
	}
	void mul_pow5(unsigned e)
	{
		while (e >= 13)
		{
			mul_small(1220703125u); // 5^13
			e -= 13;
		}
		uint32_t m = 1;
		while (e--)
			m *= 5;
		if (m > 1)
			mul_small(m);
	}
	static int cmp(const BigNat &a, const BigNat &b)
	{
		if (a.l.size() != b.l.size())
			return a.l.size() < b.l.size() ? -1 : 1;
		for (size_t i = a.l.size(); i-- > 0;)
			if (a.l[i] != b.l[i])
				return a.l[i] < b.l[i] ? -1 : 1;
		return 0;
	}
	static BigNat from_dec(const std::string &digits)
	{
		BigNat r;
		size_t i = 0;
		while (i < digits.size())
		{
			size_t n = std::min<size_t>(9, digits.size() - i);
			uint32_t chunk = 0, p = 1;
			for (size_t k = 0; k < n; k++)
			{
				chunk = chunk * 10 + (uint32_t)(digits[i + k] - '0');
				p *= 10;
			}
			if (r.zero())
				r = BigNat(chunk);
			else
			{
				r.mul_small(p);
				r.add_small(chunk);
			}
			i += n;
		}
		r.trim();
		return r;
	}
	uint32_t divmod_small(uint32_t d)
	{
		uint64_t rem = 0;
		for (size_t i = l.size(); i-- > 0;)
		{
			uint64_t cur = (rem << 32) | l[i];
			l[i] = (uint32_t)(cur / d);
			rem = cur % d;
		}
		trim();
		return (uint32_t)rem;
	}
	std::string to_dec() const
	{
		if (zero())
			return "0";
		BigNat t = *this;
		std::string out;
		while (!t.zero())
		{
			uint32_t r = t.divmod_small(1000000000u);
			for (int k = 0; k < 9; k++)
			{
				out += (char)('0' + r % 10);
				r /= 10;
			}
		}
		while (out.size() > 1 && out.back() == '0')
			out.pop_back();
		std::reverse(out.begin(), out.end());
		return out;
	}
	bool fits_u64() const { return l.size() <= 2; }
	uint64_t to_u64() const
	{
		uint64_t v = 0;
		if (l.size() > 0)
			v |= l[0];
		if (l.size() > 1)
			v |= (uint64_t)l[1] << 32;
		return v;
	}
};

// a non-negative rational  n * 2^e2 * 10^e10  (exponents may be negative)
struct Scaled {
	BigNat n;
	long e2 = 0, e10 = 0;
};
// compare two such numbers exactly
inline int cmp_scaled(const Scaled &a, const Scaled &b)
{
	// a.n*2^a.e2*10^a.e10  vs  b.n*2^b.e2*10^b.e10 ; move negative exponents to the other side
	BigNat L = a.n, R = b.n;
	long d2 = a.e2 - b.e2, d10 = a.e10 - b.e10;
	// 10^d10 = 2^d10 * 5^d10
	long p2 = d2 + d10, p5 = d10;
	if (p2 >= 0)
		L.shl((unsigned)p2);
	else
		R.shl((unsigned)(-p2));
	if (p5 >= 0)
		L.mul_pow5((unsigned)p5);
	else
		R.mul_pow5((unsigned)(-p5));
	return BigNat::cmp(L, R);
}

inline uint64_t dbl_bits(double d)
{
	uint64_t u;
	memcpy(&u, &d, 8);
	return u;
}
inline double bits_dbl(uint64_t u)
{
	double d;
	memcpy(&d, &u, 8);
	return d;
}
// finite non-negative double = m * 2^q exactly
inline void decompose(uint64_t bits, uint64_t &m, long &q)
{
	uint64_t e = (bits >> 52) & 0x7ff, f = bits & ((1ULL << 52) - 1);
	if (e == 0)
	{
		m = f;
		q = -1074;
	}
	else
	{
		m = f | (1ULL << 52);
		q = (long)e - 1075;
	}
}

struct DecNum {
	bool neg = false;
	std::string digits; // significant digits (no leading zeros unless value 0)
	long e10 = 0;       // value = digits * 10^e10
	bool ok = false;
	bool exp_huge = false; // exponent magnitude beyond 10^8: the value is 0 or infinite in binary64 whatever the digits
	bool exp_neg = false;
};
// parse a JSON-grammar number text (also tolerates leading '+', leading zeros) into digits*10^e10
inline DecNum parse_decimal(const std::string &t)
{
	DecNum r;
	size_t i = 0;
	if (i < t.size() && (t[i] == '-' || t[i] == '+'))
		r.neg = t[i++] == '-';
	std::string ip, fp;
	while (i < t.size() && t[i] >= '0' && t[i] <= '9')
		ip += t[i++];
	if (i < t.size() && t[i] == '.')
	{
		i++;
		while (i < t.size() && t[i] >= '0' && t[i] <= '9')
			fp += t[i++];
	}
	if (ip.empty() && fp.empty())
		return r;
	long ex = 0;
	if (i < t.size() && (t[i] == 'e' || t[i] == 'E'))
	{
		i++;
		bool eneg = false;
		if (i < t.size() && (t[i] == '-' || t[i] == '+'))
			eneg = t[i++] == '-';
		size_t nd = 0;
		while (i < t.size() && t[i] >= '0' && t[i] <= '9')
		{
			if (ex < 100000000)
				ex = ex * 10 + (t[i] - '0');
			else
				r.exp_huge = true;
			i++;
			nd++;
		}
		if (nd == 0)
			return r;
		if (eneg)
			ex = -ex;
		r.exp_neg = eneg;
	}
	if (i != t.size())
		return r;
	std::string d = ip + fp;
	size_t nz = 0;
	while (nz + 1 < d.size() && d[nz] == '0')
		nz++;
	d = d.substr(nz);
	r.digits = d;
	r.e10 = ex - (long)fp.size();
	r.ok = true;
	return r;
}

// Is r the round-to-nearest-even binary64 of the decimal number `text`?
// Returns 1 yes, 0 no, -1 text not a number this judge handles.
inline int correctly_rounded_uncached(const std::string &text, double r);
// memo: harnesses judge the same (text, result) pair once per injected variant of a document
inline int correctly_rounded(const std::string &text, double r)
{
	if (text.size() < 40)
		return correctly_rounded_uncached(text, r);
	static std::map<std::pair<std::string, uint64_t>, int> memo;
	static size_t memo_bytes = 0;
	auto key = std::make_pair(text, dbl_bits(r));
	auto it = memo.find(key);
	if (it != memo.end())
		return it->second;
	int v = correctly_rounded_uncached(text, r);
	if (memo_bytes > (8u << 20))
	{
		memo.clear();
		memo_bytes = 0;
	}
	memo_bytes += text.size() + 64;
	memo.emplace(std::move(key), v);
	return v;
}
inline int correctly_rounded_uncached(const std::string &text, double r)
{
	DecNum dn = parse_decimal(text);
	if (!dn.ok)
		return -1;
	uint64_t rb = dbl_bits(r);
	bool rneg = rb >> 63;
	if (rneg != dn.neg)
		return 0;
	rb &= ~(1ULL << 63);
	if (rb > 0x7ff0000000000000ULL)
		return 0; // NaN
	bool vzero = dn.digits.find_first_not_of('0') == std::string::npos;
	if (vzero)
		return rb == 0 ? 1 : 0;
	// strip trailing zeros of digits into the exponent to keep numbers small
	std::string dg = dn.digits;
	long e10 = dn.e10;
	while (dg.size() > 1 && dg.back() == '0')
	{
		dg.pop_back();
		e10++;
	}
	long mag10 = (long)dg.size() + e10; // V < 10^mag10, V >= 10^(mag10-1)
	const uint64_t INF = 0x7ff0000000000000ULL;
	if (dn.exp_huge && dg.size() < 50000000)
		return (dn.exp_neg ? rb == 0 : rb == INF) ? 1 : 0; // |exponent| > 10^8 dwarfs any digit count we handle
	if (mag10 > 400)
		return rb == INF ? 1 : 0; // far above DBL_MAX (1.8e308)
	if (mag10 < -400)
		return rb == 0 ? 1 : 0; // far below half the smallest subnormal (2.5e-324)
	Scaled V;
	V.n = BigNat::from_dec(dg);
	V.e10 = e10;
	// upper boundary: midpoint between r and its successor
	auto midpoint = [](uint64_t lo_bits, Scaled &mid) {
		// lo_bits finite; successor may be "2^1024"
		uint64_t m1, m2;
		long q1, q2;
		decompose(lo_bits, m1, q1);
		uint64_t hb = lo_bits + 1;
		if (hb == 0x7ff0000000000000ULL)
		{
			m2 = 1ULL << 53;
			q2 = 971; // 2^1024
		}
		else
			decompose(hb, m2, q2);
		long q = std::min(q1, q2);
		BigNat a(m1), b(m2);
		a.shl((unsigned)(q1 - q));
		b.shl((unsigned)(q2 - q));
		a.add(b);
		mid.n = a;
		mid.e2 = q - 1;
		mid.e10 = 0;
	};
	bool even = (rb & 1) == 0;
	if (rb == INF)
	{
		Scaled mid;
		midpoint(INF - 1, mid);
		int c = cmp_scaled(V, mid);
		return c >= 0 ? 1 : 0; // tie rounds to even = 2^1024 = inf
	}
	{
		Scaled mid;
		midpoint(rb, mid);
		int c = cmp_scaled(V, mid);
		if (c > 0 || (c == 0 && !even))
			return 0;
	}
	if (rb != 0)
	{
		Scaled mid;
		midpoint(rb - 1, mid);
		int c = cmp_scaled(V, mid);
		if (c < 0 || (c == 0 && !even))
			return 0;
	}
	return 1;
}

// exact decimal expansion of a finite non-negative dyadic  n * 2^e2  as "ddd.ddd" (no exponent)
inline std::string dyadic_to_decimal(BigNat n, long e2)
{
	if (e2 >= 0)
	{
		n.shl((unsigned)e2);
		return n.to_dec();
	}
	unsigned k = (unsigned)(-e2);
	n.mul_pow5(k); // n*5^k / 10^k
	std::string d = n.to_dec();
	if (d.size() <= k)
		d = std::string(k - d.size() + 1, '0') + d;
	std::string ip = d.substr(0, d.size() - k), fp = d.substr(d.size() - k);
	while (!fp.empty() && fp.back() == '0')
		fp.pop_back();
	return fp.empty() ? ip : ip + "." + fp;
}
// decimal text of the exact midpoint between the double with these (non-negative, finite) bits and its successor
inline std::string midpoint_text(uint64_t bits)
{
	uint64_t m1, m2;
	long q1, q2;
	decompose(bits, m1, q1);
	uint64_t hb = bits + 1;
	if (hb == 0x7ff0000000000000ULL)
	{
		m2 = 1ULL << 53;
		q2 = 971;
	}
	else
		decompose(hb, m2, q2);
	long q = std::min(q1, q2);
	BigNat a(m1), b(m2);
	a.shl((unsigned)(q1 - q));
	b.shl((unsigned)(q2 - q));
	a.add(b);
	return dyadic_to_decimal(a, q - 1);
}
inline std::string exact_text(uint64_t bits)
{
	uint64_t m;
	long q;
	decompose(bits, m, q);
	return dyadic_to_decimal(BigNat(m), q);
}

} // namespace vf
