// RFC 6901 JSON Pointer on the plain Val model (written from the RFC).
#pragma once
#include "val.hpp"

namespace vf {

enum PtrErr { P_OK = 0, P_SYNTAX, P_NOTFOUND };

inline std::string ptr_escape(const std::string &name)
{
	std::string o;
	for (char ch : name)
	{
		if (ch == '~')
			o += "~0";
		else if (ch == '/')
			o += "~1";
		else
			o += ch;
	}
	return o;
}
// split into unescaped reference tokens; false on a syntax error ("" is valid and has no tokens)
inline bool ptr_tokens(const std::string &p, std::vector<std::string> &toks)
{
	toks.clear();
	if (p.empty())
		return true;
	if (p[0] != '/')
		return false;
	size_t i = 1;
	std::string cur;
	for (;; i++)
	{
		if (i == p.size() || p[i] == '/')
		{
			toks.push_back(cur);
			cur.clear();
			if (i == p.size())
				break;
			continue;
		}
		if (p[i] == '~')
		{
			if (i + 1 < p.size() && p[i + 1] == '0')
				cur += '~';
			else if (i + 1 < p.size() && p[i + 1] == '1')
				cur += '/';
			else
				return false; // "~" must be followed by 0 or 1 (RFC 6901 section 3)
			i++;
			continue;
		}
		cur += p[i];
	}
	return true;
}
// canonical array index: "0" or [1-9][0-9]*; huge values saturate at SIZE_MAX
inline bool ptr_array_index(const std::string &t, size_t &idx)
{
	if (t.empty())
		return false;
	if (t.size() > 1 && t[0] == '0')
		return false;
	unsigned __int128 v = 0;
	for (char ch : t)
	{
		if (ch < '0' || ch > '9')
			return false;
		if (v < ((unsigned __int128)1 << 100))
			v = v * 10 + (unsigned)(ch - '0');
	}
	idx = v > (unsigned __int128)SIZE_MAX ? SIZE_MAX : (size_t)v;
	return true;
}
// step from one value into a child named by an (unescaped) token
inline Val *ptr_step(Val &cur, const std::string &tok, PtrErr &err)
{
	if (cur.k == Val::Obj)
	{
		Val *c = cur.find(tok);
		if (!c)
			err = P_NOTFOUND;
		return c;
	}
	if (cur.k == Val::Arr)
	{
		size_t idx;
		if (tok == "-")
		{
			err = P_NOTFOUND; // refers to the (nonexistent) element after the last one
			return nullptr;
		}
		if (!ptr_array_index(tok, idx))
		{
			err = P_SYNTAX;
			return nullptr;
		}
		if (idx >= cur.a.size())
		{
			err = P_NOTFOUND;
			return nullptr;
		}
		return &cur.a[idx];
	}
	err = P_NOTFOUND; // a scalar or null has no children
	return nullptr;
}
inline Val *ptr_eval_tokens(Val &root, const std::vector<std::string> &toks, size_t n, PtrErr &err)
{
	Val *cur = &root;
	err = P_OK;
	for (size_t i = 0; i < n; i++)
	{
		cur = ptr_step(*cur, toks[i], err);
		if (!cur)
			return nullptr;
	}
	return cur;
}
inline Val *ptr_eval(Val &root, const std::string &p, PtrErr &err)
{
	std::vector<std::string> toks;
	if (!ptr_tokens(p, toks))
	{
		err = P_SYNTAX;
		return nullptr;
	}
	return ptr_eval_tokens(root, toks, toks.size(), err);
}
// all pointers (escaped) to every node, in document order
inline void ptr_all_paths(const Val &v, const std::string &prefix, std::vector<std::string> &out)
{
	out.push_back(prefix);
	if (v.k == Val::Arr)
		for (size_t i = 0; i < v.a.size(); i++)
			ptr_all_paths(v.a[i], prefix + "/" + std::to_string(i), out);
	else if (v.k == Val::Obj)
		for (auto &kv : v.o)
			ptr_all_paths(kv.second, prefix + "/" + ptr_escape(kv.first), out);
}
// walk a json-c tree along unescaped tokens with the public accessors only
inline bool jc_walk(json_object *root, const std::vector<std::string> &toks, json_object **out)
{
	json_object *cur = root;
	for (auto &t : toks)
	{
		if (json_object_get_type(cur) == json_type_object)
		{
			json_object *c = nullptr;
			if (!json_object_object_get_ex(cur, t.c_str(), &c))
				return false;
			cur = c;
		}
		else if (json_object_get_type(cur) == json_type_array)
		{
			size_t idx;
			if (!ptr_array_index(t, idx) || idx >= json_object_array_length(cur))
				return false;
			cur = json_object_array_get_idx(cur, idx);
		}
		else
			return false;
	}
	*out = cur;
	return true;
}

} // namespace vf
