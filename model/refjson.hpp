// Reference RFC 8259 parser over bytes -> Val, written from the RFC (never calls json-c).
// Also records the token list with spans and nesting, used to classify split
// positions (C03), find the first too-deep value (C15) and enumerate injection
// positions (C16).
#pragma once
#include "val.hpp"

namespace vf {

struct RefTok {
	enum K { LBRACE, RBRACE, LBRACK, RBRACK, COMMA, COLON, STRING, NUMBER, LITERAL } k;
	size_t start, end; // [start,end) in the text
	int depth;         // number of containers enclosing this token (for brackets: enclosing the container)
	bool is_key = false;
	bool is_int = false; // NUMBER without fraction/exponent
};

struct RefResult {
	bool ok = false;
	Val v;
	size_t end = 0;     // offset just after the value (before trailing whitespace)
	size_t err_pos = 0; // where the reference gave up
	std::string err;
	int max_depth = 0;  // max number of containers enclosing any value (0 for a top-level scalar)
	std::vector<RefTok> toks;
	bool has_huge_int = false;   // some integer beyond the 64-bit range of its sign
	bool has_nul_key = false;    // some member name contains U+0000
	bool has_dup_key = false;
	bool strings_valid_utf8 = true;
};

struct RefParser {
	const unsigned char *p;
	size_t n, i = 0;
	RefResult *r;
	bool want_toks;
	int depth = 0;
	bool fail(const char *m)
	{
		if (r->err.empty())
		{
			r->err = m;
			r->err_pos = i;
		}
		return false;
	}
	void ws()
	{
		while (i < n && (p[i] == ' ' || p[i] == '\t' || p[i] == '\n' || p[i] == '\r'))
			i++;
	}
	void tok(RefTok::K k, size_t s, size_t e, bool key = false, bool isint = false)
	{
		if (want_toks)
		{
			RefTok t;
			t.k = k;
			t.start = s;
			t.end = e;
			t.depth = depth;
			t.is_key = key;
			t.is_int = isint;
			r->toks.push_back(t);
		}
	}
	static int hexv(unsigned char c)
	{
		if (c >= '0' && c <= '9')
			return c - '0';
		if (c >= 'a' && c <= 'f')
			return c - 'a' + 10;
		if (c >= 'A' && c <= 'F')
			return c - 'A' + 10;
		return -1;
	}
	bool string(std::string &out)
	{
		// p[i] == '"'
		i++;
		uint32_t pending_high = 0;
		auto flush_high = [&]() {
			if (pending_high)
			{
				utf8_append(out, 0xfffd);
				pending_high = 0;
			}
		};
		while (true)
		{
			if (i >= n)
				return fail("unterminated string");
			unsigned char c = p[i];
			if (c == '"')
			{
				flush_high();
				i++;
				return true;
			}
			if (c < 0x20)
				return fail("raw control character in string");
			if (c != '\\')
			{
				flush_high();
				out += (char)c;
				i++;
				continue;
			}
			if (i + 1 >= n)
				return fail("unterminated escape");
			unsigned char e = p[i + 1];
			if (e != 'u')
			{
				flush_high();
				char ch;
				switch (e)
				{
				case '"': ch = '"'; break;
				case '\\': ch = '\\'; break;
				case '/': ch = '/'; break;
				case 'b': ch = '\b'; break;
				case 'f': ch = '\f'; break;
				case 'n': ch = '\n'; break;
				case 'r': ch = '\r'; break;
				case 't': ch = '\t'; break;
				default: i++; return fail("bad escape");
				}
				out += ch;
				i += 2;
				continue;
			}
			if (i + 6 > n)
			{
				i = n;
				return fail("short \\u escape");
			}
			uint32_t cu = 0;
			for (int k = 0; k < 4; k++)
			{
				int hv = hexv(p[i + 2 + k]);
				if (hv < 0)
				{
					i += 2 + k;
					return fail("bad hex digit");
				}
				cu = cu * 16 + hv;
			}
			i += 6;
			if (pending_high)
			{
				if (cu >= 0xdc00 && cu <= 0xdfff)
				{
					utf8_append(out, 0x10000 + ((pending_high & 0x3ff) << 10) + (cu & 0x3ff));
					pending_high = 0;
					continue;
				}
				flush_high();
			}
			if (cu >= 0xd800 && cu <= 0xdbff)
				pending_high = cu;
			else if (cu >= 0xdc00 && cu <= 0xdfff)
				utf8_append(out, 0xfffd);
			else
				utf8_append(out, cu);
		}
	}
	bool number(Val &v)
	{
		size_t s = i;
		bool neg = false;
		if (i < n && p[i] == '-')
		{
			neg = true;
			i++;
		}
		if (i >= n)
			return fail("number: digit expected");
		if (p[i] == '0')
			i++;
		else if (p[i] >= '1' && p[i] <= '9')
			while (i < n && p[i] >= '0' && p[i] <= '9')
				i++;
		else
			return fail("number: digit expected");
		bool isint = true;
		if (i < n && p[i] == '.')
		{
			isint = false;
			i++;
			if (i >= n || p[i] < '0' || p[i] > '9')
				return fail("number: fraction digit expected");
			while (i < n && p[i] >= '0' && p[i] <= '9')
				i++;
		}
		if (i < n && (p[i] == 'e' || p[i] == 'E'))
		{
			isint = false;
			i++;
			if (i < n && (p[i] == '+' || p[i] == '-'))
				i++;
			if (i >= n || p[i] < '0' || p[i] > '9')
				return fail("number: exponent digit expected");
			while (i < n && p[i] >= '0' && p[i] <= '9')
				i++;
		}
		std::string text((const char *)p + s, i - s);
		tok(RefTok::NUMBER, s, i, false, isint);
		if (isint)
		{
			v.k = Val::Int;
			std::string digits = text.substr(neg ? 1 : 0);
			BigNat b = BigNat::from_dec(digits);
			v.neg = neg && !b.zero();
			if (!b.fits_u64())
			{
				v.huge = true;
				v.mag = neg ? (1ULL << 63) : UINT64_MAX; // saturated bound
			}
			else
			{
				v.mag = b.to_u64();
				if (neg && v.mag > (1ULL << 63))
				{
					v.huge = true;
					v.mag = 1ULL << 63;
				}
			}
			if (v.huge)
				r->has_huge_int = true;
		}
		else
		{
			v.k = Val::Dbl;
			v.numtext = text;
			v.from_text = true;
			v.d = 0;
		}
		return true;
	}
	bool value(Val &v)
	{
		ws();
		if (i >= n)
			return fail("value expected");
		if (depth > r->max_depth)
			r->max_depth = depth;
		unsigned char c = p[i];
		if (c == '{')
		{
			tok(RefTok::LBRACE, i, i + 1);
			i++;
			v.k = Val::Obj;
			depth++;
			ws();
			if (i < n && p[i] == '}')
			{
				depth--;
				tok(RefTok::RBRACE, i, i + 1);
				i++;
				return true;
			}
			while (true)
			{
				ws();
				if (i >= n || p[i] != '"')
					return fail("member name expected");
				size_t s = i;
				std::string key;
				if (!string(key))
					return false;
				tok(RefTok::STRING, s, i, true);
				if (key.find('\0') != std::string::npos)
					r->has_nul_key = true;
				if (!valid_utf8(key))
					r->strings_valid_utf8 = false;
				ws();
				if (i >= n || p[i] != ':')
					return fail("':' expected");
				tok(RefTok::COLON, i, i + 1);
				i++;
				Val child;
				if (!value(child))
					return false;
				if (v.find(key))
					r->has_dup_key = true;
				v.set(key, child);
				ws();
				if (i < n && p[i] == ',')
				{
					tok(RefTok::COMMA, i, i + 1);
					i++;
					continue;
				}
				if (i < n && p[i] == '}')
				{
					depth--;
					tok(RefTok::RBRACE, i, i + 1);
					i++;
					return true;
				}
				return fail("',' or '}' expected");
			}
		}
		if (c == '[')
		{
			tok(RefTok::LBRACK, i, i + 1);
			i++;
			v.k = Val::Arr;
			depth++;
			ws();
			if (i < n && p[i] == ']')
			{
				depth--;
				tok(RefTok::RBRACK, i, i + 1);
				i++;
				return true;
			}
			while (true)
			{
				Val child;
				if (!value(child))
					return false;
				v.a.push_back(std::move(child));
				ws();
				if (i < n && p[i] == ',')
				{
					tok(RefTok::COMMA, i, i + 1);
					i++;
					continue;
				}
				if (i < n && p[i] == ']')
				{
					depth--;
					tok(RefTok::RBRACK, i, i + 1);
					i++;
					return true;
				}
				return fail("',' or ']' expected");
			}
		}
		if (c == '"')
		{
			size_t s = i;
			v.k = Val::Str;
			if (!string(v.s))
				return false;
			tok(RefTok::STRING, s, i);
			if (!valid_utf8(v.s))
				r->strings_valid_utf8 = false;
			return true;
		}
		if (c == '-' || (c >= '0' && c <= '9'))
			return number(v);
		auto lit = [&](const char *w, size_t wl) {
			if (i + wl <= n && memcmp(p + i, w, wl) == 0)
			{
				tok(RefTok::LITERAL, i, i + wl);
				i += wl;
				return true;
			}
			return false;
		};
		if (lit("true", 4))
		{
			v = Val::boolean(true);
			return true;
		}
		if (lit("false", 5))
		{
			v = Val::boolean(false);
			return true;
		}
		if (lit("null", 4))
		{
			v = Val::null();
			return true;
		}
		return fail("unexpected character");
	}
};

// whole: require only whitespace after the value
inline RefResult ref_parse(const std::string &text, bool whole = true, bool want_toks = false, size_t from = 0)
{
	RefResult r;
	RefParser ps;
	ps.p = (const unsigned char *)text.data();
	ps.n = text.size();
	ps.i = from;
	ps.r = &r;
	ps.want_toks = want_toks;
	Val v;
	if (!ps.value(v))
		return r;
	r.end = ps.i;
	if (whole)
	{
		ps.ws();
		if (ps.i != ps.n)
		{
			ps.fail("trailing characters");
			return r;
		}
	}
	r.ok = true;
	r.v = std::move(v);
	return r;
}

} // namespace vf
