// Helpers for driving json_tokener on exact-size heap copies (any over-read is an ASan report).
#pragma once
#include "val.hpp"
namespace vf {
struct HeapCopy {
	char *p;
	size_t n;
	HeapCopy(const std::string &s, bool nul)
	{
		n = s.size() + (nul ? 1 : 0);
		p = new char[n];
		if (!s.empty())
			memcpy(p, s.data(), s.size());
		if (nul)
			p[n - 1] = 0;
	}
	HeapCopy(const HeapCopy &) = delete;
	~HeapCopy() { delete[] p; }
};
struct POut {
	int err = 0;       // json_tokener_error
	bool has = false;  // non-NULL object returned
	Val v;
	std::string ser;   // PLAIN serialisation of the returned value (carries retained number text)
	size_t end = 0;
	bool same(const POut &o, std::string &why, DblCmp dc = DBL_BITS) const
	{
		if (err != o.err)
		{
			why = std::string("status ") + json_tokener_error_desc((json_tokener_error)err) + " vs " +
			      json_tokener_error_desc((json_tokener_error)o.err);
			return false;
		}
		if (end != o.end)
		{
			why = "parse end " + std::to_string(end) + " vs " + std::to_string(o.end);
			return false;
		}
		if (has != o.has)
		{
			why = "value presence differs";
			return false;
		}
		if (!same_val(v, o.v, why, dc))
			return false;
		if (ser != o.ser)
		{
			why = "serialisation of the value differs: " + quote(ser, 200) + " vs " + quote(o.ser, 200);
			return false;
		}
		return true;
	}
	std::string show_() const
	{
		return std::string(json_tokener_error_desc((json_tokener_error)err)) + " end=" + std::to_string(end) +
		       (err == json_tokener_success ? " value=" + show(v, 300) : "");
	}
};
// one call on an existing tokener with exactly these bytes
inline POut parse_call(json_tokener *tok, const std::string &bytes, bool nul)
{
	HeapCopy hc(bytes, nul);
	POut r;
	json_object *o = json_tokener_parse_ex(tok, hc.p, (int)hc.n);
	r.err = (int)json_tokener_get_error(tok);
	r.end = json_tokener_get_parse_end(tok);
	r.has = o != nullptr;
	if (o)
	{
		r.v = dump(o);
		size_t sl = 0;
		const char *st = json_object_to_json_string_length(o, JSON_C_TO_STRING_PLAIN, &sl);
		if (st)
			r.ser.assign(st, sl);
	}
	json_object_put(o);
	return r;
}
inline POut parse_fresh(const std::string &bytes, int flags, int depth, bool nul)
{
	json_tokener *tok = json_tokener_new_ex(depth);
	json_tokener_set_flags(tok, flags);
	POut r = parse_call(tok, bytes, nul);
	json_tokener_free(tok);
	return r;
}
} // namespace vf
