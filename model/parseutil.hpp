// Helpers for driving json_tokener on exact-size heap copies (any over-read is an ASan report).
#pragma once
#include <cerrno>
#include <fcntl.h>
#include <sys/mman.h>
#include <unistd.h>
#include <signal.h>
#include <thread>
#include "val.hpp"
namespace vf {
struct HeapCopy {
	char *p;
	size_t n;
	HeapCopy(const std::string &s, bool nul)
	{
		n = s.size() + (nul ? 1 : 0);
		p = new char[n];
		if (!s.empty())
			memcpy(p, s.data(), s.size());
		if (nul)
			p[n - 1] = 0;
	}
	HeapCopy(const HeapCopy &) = delete;
	~HeapCopy() { delete[] p; }
};
struct POut {
	int err = 0;       // json_tokener_error
	bool has = false;  // non-NULL object returned
	Val v;
	std::string ser;   // PLAIN serialisation of the returned value (carries retained number text)
	size_t end = 0;
	bool same(const POut &o, std::string &why, DblCmp dc = DBL_BITS) const
	{
		if (err != o.err)
		{
			why = std::string("status ") + json_tokener_error_desc((json_tokener_error)err) + " vs " +
			      json_tokener_error_desc((json_tokener_error)o.err);
			return false;
		}
		if (end != o.end)
		{
			why = "parse end " + std::to_string(end) + " vs " + std::to_string(o.end);
			return false;
		}
		if (has != o.has)
		{
			why = "value presence differs";
			return false;
		}
		if (!same_val(v, o.v, why, dc))
			return false;
		if (ser != o.ser)
		{
			why = "serialisation of the value differs: " + quote(ser, 200) + " vs " + quote(o.ser, 200);
			return false;
		}
		return true;
	}
	std::string show_() const
	{
		return std::string(json_tokener_error_desc((json_tokener_error)err)) + " end=" + std::to_string(end) +
		       (err == json_tokener_success ? " value=" + show(v, 300) : "");
	}
};
// one call on an existing tokener with exactly these bytes
inline POut parse_call(json_tokener *tok, const std::string &bytes, bool nul)
{
	HeapCopy hc(bytes, nul);
	POut r;
	json_object *o = json_tokener_parse_ex(tok, hc.p, (int)hc.n);
	r.err = (int)json_tokener_get_error(tok);
	r.end = json_tokener_get_parse_end(tok);
	r.has = o != nullptr;
	if (o)
	{
		r.v = dump(o);
		size_t sl = 0;
		const char *st = json_object_to_json_string_length(o, JSON_C_TO_STRING_PLAIN, &sl);
		if (st)
			r.ser.assign(st, sl);
	}
	json_object_put(o);
	return r;
}
inline POut parse_fresh(const std::string &bytes, int flags, int depth, bool nul)
{
	json_tokener *tok = json_tokener_new_ex(depth);
	json_tokener_set_flags(tok, flags);
	POut r = parse_call(tok, bytes, nul);
	json_tokener_free(tok);
	return r;
}
// The descriptor / file entry points on real kernel objects. how: 0 memory file + json_object_from_fd, 1 pipe
// fed in small pieces by a writer thread + json_object_from_fd (reads come back short), 2 the same pipe opened by path through
// json_object_from_file (a file whose size reads as 0), 3 memory file by path through json_object_from_file.
// Returns false when the kernel object could not be set up (nothing explored).
inline bool parse_via_fd(const std::string &bytes, int how, size_t piece, json_object **out)
{
	*out = nullptr;
	if (how == 0 || how == 3)
	{
		int fd = memfd_create("vfd", 0);
		if (fd < 0)
			return false;
		bool ok = write(fd, bytes.data(), bytes.size()) == (ssize_t)bytes.size() && lseek(fd, 0, SEEK_SET) == 0;
		if (ok)
		{
			if (how == 0)
				*out = json_object_from_fd(fd);
			else
			{
				char path[64];
				snprintf(path, sizeof path, "/proc/self/fd/%d", fd);
				*out = json_object_from_file(path);
			}
		}
		close(fd);
		return ok;
	}
	// A stream pipe fed by a writer thread in small pieces with pauses: the reader's read() calls come back short
	// whatever buffer size it uses (packet-mode pipes would silently drop the part of a packet that does not fit the
	// reader's buffer - that would make the outcome depend on an internal buffer size). The expected result does not
	// depend on how the schedule turns out.
	int p[2];
	if (pipe(p) != 0)
		return false;
	// Blocking reads and writes on a pipe can be interrupted by a signal (libFuzzer drives its timeout with SIGALRM);
	// json-c reports EINTR as a read error, which is its right - but it is not what this check is about. The timer
	// signal is held back in both threads for the duration of the transfer.
	sigset_t blk, old;
	sigemptyset(&blk);
	sigaddset(&blk, SIGALRM);
	pthread_sigmask(SIG_BLOCK, &blk, &old);
	struct Unblock {
		sigset_t *o;
		~Unblock() { pthread_sigmask(SIG_SETMASK, o, nullptr); }
	} unblock{&old};
	if (piece < 1)
		piece = 1;
	if (bytes.size() / piece > 24)
		piece = bytes.size() / 24 + 1;
	bool ok = true;
	std::thread writer([&]() {
		for (size_t at = 0; at < bytes.size(); at += piece)
		{
			size_t n = std::min(piece, bytes.size() - at), done = 0;
			while (done < n)
			{
				ssize_t w = write(p[1], bytes.data() + at + done, n - done);
				if (w < 0 && errno == EINTR)
					continue;
				if (w <= 0)
				{
					ok = false;
					break;
				}
				done += (size_t)w;
			}
			if (!ok)
				break;
			usleep(150);
		}
		close(p[1]);
	});
	if (how == 1)
		*out = json_object_from_fd(p[0]);
	else
	{
		char path[64];
		snprintf(path, sizeof path, "/proc/self/fd/%d", p[0]);
		*out = json_object_from_file(path);
	}
	// drain whatever the library left unread so the writer can finish, then join
	{
		char sink[4096];
		int fl = fcntl(p[0], F_GETFL);
		(void)fl;
		while (read(p[0], sink, sizeof sink) > 0)
			;
	}
	writer.join();
	close(p[0]);
	return ok;
}
} // namespace vf
