// RFC 6902 JSON Patch on the plain Val model (written from the RFC; copy semantics by construction).
#pragma once
#include "rfc6901.hpp"

namespace vf {

// value equality as json_object_equal defines it (C09): kind-strict, IEEE == on doubles, order-insensitive objects
inline bool val_equal(const Val &a, const Val &b)
{
	if (a.k != b.k)
		return false;
	switch (a.k)
	{
	case Val::Null: return true;
	case Val::Bool: return a.b == b.b;
	case Val::Int: return a.mag == b.mag && (a.neg && a.mag) == (b.neg && b.mag);
	case Val::Dbl: return a.d == b.d;
	case Val::Str: return a.s == b.s;
	case Val::Arr:
		if (a.a.size() != b.a.size())
			return false;
		for (size_t i = 0; i < a.a.size(); i++)
			if (!val_equal(a.a[i], b.a[i]))
				return false;
		return true;
	case Val::Obj:
		if (a.o.size() != b.o.size())
			return false;
		for (auto &kv : a.o)
		{
			const Val *o = b.find(kv.first);
			if (!o || !val_equal(kv.second, *o))
				return false;
		}
		return true;
	}
	return false;
}

struct PatchDoc {
	bool present = true; // false after the root was removed
	Val v;
};

struct PatchOutcome {
	bool ok = true;
	size_t fail_idx = 0;
	std::string why;
	bool undefined = false; // reached a situation neither the RFC nor json_patch.h settles (root absent/null with further ops)
};

inline bool patch_add(PatchDoc &d, const std::string &path, const Val &value, std::string &why)
{
	std::vector<std::string> toks;
	if (!ptr_tokens(path, toks))
	{
		why = "invalid pointer";
		return false;
	}
	if (toks.empty())
	{
		d.v = value;
		d.present = true;
		return true;
	}
	if (!d.present)
	{
		why = "no document";
		return false;
	}
	PtrErr err;
	Val *parent = ptr_eval_tokens(d.v, toks, toks.size() - 1, err);
	if (!parent)
	{
		why = "parent of the target location does not exist";
		return false;
	}
	const std::string &last = toks.back();
	if (parent->k == Val::Obj)
	{
		parent->set(last, value);
		return true;
	}
	if (parent->k == Val::Arr)
	{
		if (last == "-")
		{
			parent->a.push_back(value);
			return true;
		}
		size_t idx;
		if (!ptr_array_index(last, idx))
		{
			why = "invalid array index";
			return false;
		}
		if (idx > parent->a.size())
		{
			why = "array index greater than the number of elements";
			return false;
		}
		parent->a.insert(parent->a.begin() + idx, value);
		return true;
	}
	why = "parent is not a container";
	return false;
}
inline bool patch_remove(PatchDoc &d, const std::string &path, Val *removed, std::string &why)
{
	std::vector<std::string> toks;
	if (!ptr_tokens(path, toks))
	{
		why = "invalid pointer";
		return false;
	}
	if (!d.present)
	{
		why = "no document";
		return false;
	}
	if (toks.empty())
	{
		if (removed)
			*removed = d.v;
		d.present = false;
		d.v = Val::null();
		return true;
	}
	PtrErr err;
	Val *parent = ptr_eval_tokens(d.v, toks, toks.size() - 1, err);
	if (!parent)
	{
		why = "target does not exist";
		return false;
	}
	Val *target = ptr_step(*parent, toks.back(), err);
	if (!target)
	{
		why = "target does not exist";
		return false;
	}
	if (removed)
		*removed = *target;
	if (parent->k == Val::Obj)
		parent->erase(toks.back());
	else
		parent->a.erase(parent->a.begin() + (target - &parent->a[0]));
	return true;
}

inline bool op_str(const Val &op, const char *name, std::string &out)
{
	const Val *f = op.find(name);
	if (!f || f->k != Val::Str)
		return false;
	out = f->s;
	return true;
}

// apply one operation object
inline bool patch_one(PatchDoc &d, const Val &op, std::string &why)
{
	if (op.k != Val::Obj)
	{
		why = "operation is not an object";
		return false;
	}
	std::string name, path;
	if (!op_str(op, "op", name))
	{
		why = "missing or non-string op";
		return false;
	}
	if (!op_str(op, "path", path))
	{
		why = "missing or non-string path";
		return false;
	}
	// embedded NUL cannot be part of a pointer json-c sees; treat as invalid
	if (path.find('\0') != std::string::npos)
	{
		why = "NUL in path";
		return false;
	}
	if (name == "add" || name == "replace" || name == "test")
	{
		const Val *value = op.find("value");
		if (!value)
		{
			why = "missing value";
			return false;
		}
		if (name == "add")
			return patch_add(d, path, *value, why);
		if (!d.present)
		{
			why = "no document";
			return false;
		}
		PtrErr err;
		Val *t = ptr_eval(d.v, path, err);
		if (!t)
		{
			why = "target does not exist";
			return false;
		}
		if (name == "replace")
		{
			Val copy = *value;
			*t = copy;
			return true;
		}
		if (!val_equal(*t, *value))
		{
			why = "test failed";
			return false;
		}
		return true;
	}
	if (name == "remove")
		return patch_remove(d, path, nullptr, why);
	if (name == "move" || name == "copy")
	{
		std::string from;
		if (!op_str(op, "from", from) || from.find('\0') != std::string::npos)
		{
			why = "missing or non-string from";
			return false;
		}
		std::vector<std::string> ft, pt;
		if (!ptr_tokens(from, ft) || !ptr_tokens(path, pt))
		{
			why = "invalid pointer";
			return false;
		}
		if (!d.present)
		{
			why = "no document";
			return false;
		}
		PtrErr err;
		Val *src = ptr_eval_tokens(d.v, ft, ft.size(), err);
		if (!src)
		{
			why = "from location does not exist";
			return false;
		}
		if (name == "copy")
		{
			Val v = *src;
			return patch_add(d, path, v, why);
		}
		// move: "from" must not be a proper prefix of "path" (section 4.4), compared as locations
		if (ft.size() < pt.size() && std::equal(ft.begin(), ft.end(), pt.begin()))
		{
			why = "cannot move a location into one of its children";
			return false;
		}
		PatchDoc work = d; // the two steps succeed or fail together
		Val v;
		if (!patch_remove(work, from, &v, why))
			return false;
		if (!patch_add(work, path, v, why))
			return false;
		d = work;
		return true;
	}
	why = "unknown op";
	return false;
}

inline PatchOutcome patch_apply(PatchDoc &d, const Val &patch)
{
	PatchOutcome r;
	if (patch.k != Val::Arr)
	{
		r.ok = false;
		r.fail_idx = (size_t)-1;
		r.why = "patch is not an array";
		return r;
	}
	for (size_t i = 0; i < patch.a.size(); i++)
	{
		// a root that is absent or JSON null cannot be represented by json-c's NULL-pointer root: only "add" at "" is well defined there
		if (!d.present || d.v.k == Val::Null)
		{
			const Val &op = patch.a[i];
			std::string nm, pa;
			bool is_root_add = op.k == Val::Obj && op_str(op, "op", nm) && nm == "add" && op_str(op, "path", pa) && pa.empty() && op.find("value");
			if (!is_root_add)
			{
				r.undefined = true;
				return r;
			}
		}
		if (!patch_one(d, patch.a[i], r.why))
		{
			r.ok = false;
			r.fail_idx = i;
			return r;
		}
	}
	return r;
}

} // namespace vf
