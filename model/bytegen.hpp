// Generator of parser inputs that are *not* necessarily valid: valid documents, mutated
// documents, concatenated documents, token soup with json-c's extension forms.
#pragma once
#include "textgen.hpp"
namespace vf {
static const char *SOUP[] = {"-", "+", ".", "e", "0", "1", "8", "I", "i", "n", "t", "N", "a", "\"", "'",
                             "\\", "u", "d", "[", "]", "{", "}", ",", ":", " ", "\n", "/", "*", "\xc3", "\xa4"};
static const int NSOUP = 30;
inline std::string gen_text(Choices &c, Ctx &ctx)
{
	TextGenOpts o;
	o.max_depth = 4;
	o.max_nodes = 4 + c.len(14);
	o.big_numbers = c.coin(10);
	static const char *ext[] = {"/*c*/", "//c\n", "/**/", "/* * / */", "NaN", "Infinity", "-Infinity", "nAn", "TRUE", "fALSE", "nULL",
	                            "'s'", "'k':1", "-", "1e", "1e+", "1.", "-I", "\\ud800", "\\udc00", "\xc3\xa4", "\xe2\x82\xac",
	                            "\xf0\x9f\x98\x80", "\xc3", "\x80", "\xff", "01", "-01", "1.5e+3", ",", "[", "{", "\"", "\\"};
	const size_t NEXT = sizeof(ext) / sizeof(ext[0]);
	std::string t;
	switch (c.pick({30, 30, 20, 20}))
	{
	case 0: {
		TextGen g(c, o);
		t = g.document();
		ctx.label("src_valid");
		break;
	}
	case 1: {
		TextGen g(c, o);
		t = g.document();
		size_t nm = 1 + c.pickn(3);
		for (size_t k = 0; k < nm; k++)
		{
			size_t pos = t.empty() ? 0 : c.pickn(t.size() + 1);
			switch (c.pick({3, 3, 3, 2, 2, 6}))
			{
			case 0:
				if (pos < t.size())
					t.erase(pos, 1);
				break;
			case 1: t.insert(pos, 1, (char)c.range(0, 255)); break;
			case 2:
				if (pos < t.size())
					t[pos] = (char)c.range(0, 255);
				break;
			case 3: t.resize(pos); break;
			case 4: {
				size_t l = c.pickn(6);
				if (pos + l <= t.size())
					t.insert(pos, t.substr(pos, l));
				break;
			}
			default:
				if (c.coin(12))
				{
					// a comment whose total length sits around the token buffer's capacities (32, 64, 128)
					static const int caps[] = {32, 64, 128};
					int total = c.coin(60) ? caps[c.pickn(3)] + c.irange(-4, 3) : (int)c.range(4, 140);
					bool line = c.coin(25);
					std::string cm = line ? "//" : "/*";
					cm += std::string((size_t)std::max(0, total - (line ? 3 : 4)), (char)c.range('a', 'z'));
					cm += line ? "\n" : "*/";
					t.insert(pos, cm);
					ctx.label("comment_near_buffer_capacity");
				}
				else
					t.insert(pos, ext[c.pickn(NEXT)]);
				break;
			}
		}
		ctx.label("src_mutated");
		break;
	}
	case 2: {
		size_t nd = 2 + c.pickn(3);
		static const char *sep[] = {"", " ", "\n", ",", "  "};
		for (size_t k = 0; k < nd; k++)
		{
			TextGen g(c, o);
			g.o.max_nodes = 3;
			t += g.document();
			if (c.coin(20))
				t += '\0';
			else
				t += sep[c.pickn(5)];
		}
		ctx.label("src_multi_doc");
		break;
	}
	default: {
		if (c.coin(35))
		{
			// number soup: the scanner state that a resumed call has to re-derive
			static const char na[] = {'-', '+', '.', 'e', 'E', '0', '1', '9', 'I', 'i', '5', 'n'};
			size_t n = 1 + c.pickn(10);
			for (size_t k = 0; k < n; k++)
				t += na[c.pickn(12)];
			if (c.coin(50))
				t = "[" + t + "]";
			ctx.label("src_number_soup");
			break;
		}
		size_t n = 1 + c.len(12);
		for (size_t k = 0; k < n; k++)
		{
			if (c.coin(30))
				t += ext[c.pickn(NEXT)];
			else
				t += SOUP[c.pickn(NSOUP)];
		}
		ctx.label("src_soup");
		break;
	}
	}
	if (c.coin(50))
		t += '\0';
	else if (c.coin(30))
		t += ' ';
	if (t.size() > 400)
		t.resize(400);
	return t;
}

} // namespace vf
