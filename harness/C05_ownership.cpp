// C05 – every node is destroyed exactly once, exactly when its last owner releases it.
// Oracle: after every call, {tracked nodes not yet destroyed} == {tracked nodes reachable, through the
// public accessors, from references the harness owns}; destruction callbacks fire once; put()==1 iff freed.
#include "common.hpp"
#include "treegen.hpp"
#include <cerrno>
#include <climits>
using namespace vf;

const char *HARNESS_ID = "C05";
std::vector<ModeInfo> harness_modes()
{
	return {{"hist", 0, "histories of constructor/get/put/object add-replace-del/array add-put-insert-del/set_userdata/set_serializer/deep_copy/pointer_set/patch over a pool of handles"}};
}

namespace {
struct UD {
	long id;
	int gen;
};
struct Release {
	long id;
	int gen;
};
static std::vector<Release> g_log;
static void ud_release(json_object *, void *p)
{
	UD *u = (UD *)p;
	g_log.push_back({u->id, u->gen});
}

struct Handle {
	json_object *p;
	long id;   // 0: untracked node created inside the library (patch copies)
	int owned; // references the harness owns
};

struct W {
	Ctx &ctx;
	Choices &c;
	std::vector<UD *> uds;               // all user-data records (freed at the end)
	std::map<long, UD *> cur;            // node id -> current user data
	std::map<const void *, long> ud2id;  // user-data pointer -> node id
	std::set<long> alive;
	std::vector<Handle> hs;
	long next_id = 1;
	std::string trace;
	uint64_t h = 0;
	bool f_replace_shared = false, f_put_idx_occupied = false, f_failed_transfer = false, f_cascade = false, f_ud = false, f_copy = false, f_ptr = false, f_patch = false, f_fill = false, f_nullcookie = false;
	W(Ctx &cx, Choices &cc) : ctx(cx), c(cc) {}
	~W()
	{
		for (auto u : uds)
			delete u;
	}
	void log(const std::string &s)
	{
		h = hash_str(s, h);
		if (ctx.verbose)
			trace += s + "\n";
	}
	long track(json_object *j)
	{
		long id = next_id++;
		UD *u = new UD{id, 0};
		uds.push_back(u);
		cur[id] = u;
		ud2id[u] = id;
		alive.insert(id);
		json_object_set_userdata(j, u, ud_release);
		return id;
	}
	long id_of(json_object *j)
	{
		if (!j)
			return 0;
		auto it = ud2id.find(json_object_get_userdata(j));
		return it == ud2id.end() ? 0 : it->second;
	}
	void walk(json_object *j, std::set<json_object *> &seen, std::set<long> &ids)
	{
		if (!j || !seen.insert(j).second)
			return;
		long id = id_of(j);
		if (id)
		{
			if (cur[id] != json_object_get_userdata(j))
				ctx.fail("userdata", "node #" + str(id) + " carries stale user data");
			ids.insert(id);
		}
		switch (json_object_get_type(j))
		{
		case json_type_array:
			for (size_t i = 0, n = json_object_array_length(j); i < n; i++)
				walk(json_object_array_get_idx(j, i), seen, ids);
			break;
		case json_type_object: {
			json_object_iterator it = json_object_iter_begin(j), e = json_object_iter_end(j);
			while (!json_object_iter_equal(&it, &e))
			{
				(void)strlen(json_object_iter_peek_name(&it));
				walk(json_object_iter_peek_value(&it), seen, ids);
				json_object_iter_next(&it);
			}
			break;
		}
		case json_type_string: (void)json_object_get_string_len(j); break;
		default: (void)json_object_get_int64(j); break;
		}
	}
	bool in_subtree(json_object *root, json_object *needle)
	{
		std::set<json_object *> seen;
		std::set<long> ids;
		walk(root, seen, ids);
		return seen.count(needle) != 0;
	}
	// after every call
	void settle(const std::string &op, long expect_ud_id = 0, int expect_ud_gen = 0)
	{
		std::set<long> died;
		bool ud_seen = false;
		for (auto &r : g_log)
		{
			if (expect_ud_id && r.id == expect_ud_id && r.gen == expect_ud_gen && !ud_seen)
			{
				ud_seen = true;
				continue;
			}
			if (!cur.count(r.id) || cur[r.id]->gen != r.gen)
				ctx.fail("callback", op + ": delete callback fired for stale user data of node #" + str(r.id));
			if (!alive.count(r.id) || !died.insert(r.id).second)
				ctx.fail("destroyed-twice", op + ": destruction callback of node #" + str(r.id) + " ran a second time");
		}
		if (expect_ud_id && !ud_seen)
			ctx.fail("callback", op + ": replacing the user data of node #" + str(expect_ud_id) + " did not invoke the previous delete callback");
		g_log.clear();
		for (long d : died)
			alive.erase(d);
		if (died.size() >= 2)
			f_cascade = true;
		// drop handles of destroyed nodes (tracked ones); an owned handle must never die
		for (size_t i = 0; i < hs.size();)
		{
			if (hs[i].id && !alive.count(hs[i].id))
			{
				if (hs[i].owned > 0)
					ctx.fail("premature", op + ": node #" + str(hs[i].id) + " was destroyed although the harness still owns " + str(hs[i].owned) + " reference(s) to it");
				hs.erase(hs.begin() + i);
			}
			else
				i++;
		}
		std::set<json_object *> seen;
		std::set<long> reach;
		for (auto &hd : hs)
			if (hd.owned > 0)
				walk(hd.p, seen, reach);
		if (reach != alive)
		{
			std::string a, b;
			for (long x : alive)
				if (!reach.count(x))
					a += "#" + str(x) + " ";
			for (long x : reach)
				if (!alive.count(x))
					b += "#" + str(x) + " ";
			ctx.fail("reachability", op + ": alive but unreachable (not destroyed at the call that released the last reference): {" + a +
			                             "} reachable but already destroyed: {" + b + "}");
		}
		// borrowed handles (owned == 0) that are no longer reachable from an owned one are gone
		for (size_t i = 0; i < hs.size();)
		{
			if (hs[i].owned == 0 && !seen.count(hs[i].p))
				hs.erase(hs.begin() + i);
			else
				i++;
		}
	}
	int find(json_object *p)
	{
		for (size_t i = 0; i < hs.size(); i++)
			if (hs[i].p == p)
				return (int)i;
		return -1;
	}
	Handle &handle_for(json_object *p, long id)
	{
		int i = find(p);
		if (i >= 0)
			return hs[i];
		hs.push_back({p, id, 0});
		return hs.back();
	}
	int pick(std::function<bool(const Handle &)> pred)
	{
		std::vector<int> idx;
		for (size_t i = 0; i < hs.size(); i++)
			if (pred(hs[i]))
				idx.push_back((int)i);
		if (idx.empty())
			return -1;
		return idx[c.pickn(idx.size())];
	}
	void create()
	{
		json_object *j;
		std::string what;
		switch (c.pick({5, 5, 3, 3, 2, 2, 1}))
		{
		case 0: j = json_object_new_object(); what = "object"; break;
		case 1: j = c.coin(50) ? json_object_new_array() : json_object_new_array_ext((int)c.range(0, 4)); what = "array"; break;
		case 2: j = json_object_new_string(c.coin(50) ? "s" : "a longer string that does not fit inline"); what = "string"; break;
		case 3: j = json_object_new_int64(c.irange(-5, 5)); what = "int"; break;
		case 4: j = json_object_new_double(1.5); what = "double"; break;
		case 5: j = json_object_new_boolean(1); what = "boolean"; break;
		default: {
			// retained text: its user data is replaced through set_serializer(NULL, ...) as json_object.h prescribes
			j = json_object_new_double_s(2.5, "2.50");
			long id = next_id++;
			UD *u = new UD{id, 0};
			uds.push_back(u);
			cur[id] = u;
			ud2id[u] = id;
			alive.insert(id);
			json_object_set_serializer(j, nullptr, u, ud_release);
			hs.push_back({j, id, 1});
			log("new double_s #" + str(id));
			settle("new_double_s");
			return;
		}
		}
		long id = track(j);
		hs.push_back({j, id, 1});
		log("new " + what + " #" + str(id));
		settle("constructor");
	}
	void op_get()
	{
		int i = pick([](const Handle &x) { return true; });
		if (i < 0)
			return;
		json_object *r = json_object_get(hs[i].p);
		if (r != hs[i].p)
			ctx.fail("get", "json_object_get returned another pointer");
		hs[i].owned++;
		log("get #" + str(hs[i].id));
		settle("get");
	}
	void op_put()
	{
		int i = pick([](const Handle &x) { return x.owned > 0; });
		if (i < 0)
			return;
		long id = hs[i].id;
		json_object *p = hs[i].p;
		hs[i].owned--;
		size_t before = g_log.size();
		int r = json_object_put(p);
		bool freed = false;
		for (size_t k = before; k < g_log.size(); k++)
			if (g_log[k].id == id)
				freed = true;
		log("put #" + str(id) + " -> " + str(r));
		if (id && (r == 1) != freed)
			ctx.fail("put-return", "json_object_put(#" + str(id) + ") returned " + str(r) + " but the node was " + (freed ? "" : "not ") + "destroyed by that call");
		if (!id && r == 1)
			hs.erase(hs.begin() + i);
		settle("put");
	}
	// choose a value the harness may transfer: an owned handle (optionally taking an extra reference first)
	int value_for_transfer(json_object *parent)
	{
		int v = pick([&](const Handle &x) { return x.p != parent; });
		if (v < 0)
			return -1;
		if (in_subtree(hs[v].p, parent))
			return -1; // would create a cycle
		if (hs[v].owned == 0 || c.coin(35))
		{
			json_object_get(hs[v].p);
			hs[v].owned++;
			log("get #" + str(hs[v].id) + " (before sharing)");
		}
		return v;
	}
	void op_object_add()
	{
		int pi = pick([](const Handle &x) { return json_object_get_type(x.p) == json_type_object; });
		if (pi < 0)
			return;
		json_object *parent = hs[pi].p;
		long pid = hs[pi].id;
		static const char *keys[] = {"a", "b", "c", "", "a/b", "k~", "longer key name to be duplicated", "k07", "k08", "k09", "k10", "k11", "k12", "k13",
		                             "k14", "k15", "k16", "k17", "k18", "k19", "k20", "k21", "k22", "k23", "k24", "k25"};
		const char *key = keys[c.coin(55) ? c.pickn(3) : c.coin(50) ? c.pickn(7) : c.pickn(26)];
		json_object *existing = nullptr;
		bool had = json_object_object_get_ex(parent, key, &existing);
		if (c.coin(8))
		{
			// must fail: adding an object to itself
			int r = json_object_object_add(parent, key, parent);
			log("object_add #" + str(pid) + " to itself");
			if (r == 0)
				ctx.fail("self-add", "adding an object to itself succeeded");
			f_failed_transfer = true;
			settle("object_add(self)");
			return;
		}
		bool null_value = c.coin(8);
		int vi = null_value ? -1 : value_for_transfer(parent);
		if (!null_value && vi < 0)
			return;
		json_object *val = null_value ? nullptr : hs[vi].p;
		long vid = null_value ? 0 : hs[vi].id;
		if (had && existing && find(existing) >= 0 && hs[find(existing)].owned > 0)
			f_replace_shared = true;
		int r;
		if (c.coin(20))
			// the key literals above have static storage: the documented precondition of CONSTANT_KEY
			r = json_object_object_add_ex(parent, key, val, JSON_C_OBJECT_ADD_CONSTANT_KEY | (!had && c.coin(50) ? JSON_C_OBJECT_ADD_KEY_IS_NEW : 0));
		else if (!had && c.coin(30))
			r = json_object_object_add_ex(parent, key, val, JSON_C_OBJECT_ADD_KEY_IS_NEW);
		else
			r = json_object_object_add(parent, key, val);
		log("object_add #" + str(pid) + "[" + quote(key, 20) + "] = #" + str(vid) + (had ? " (replace)" : ""));
		if (r != 0)
			ctx.fail("retval", "object_add returned " + str(r));
		if (!null_value)
			hs[find(val)].owned--;
		settle("object_add");
	}
	// grow one object past a table resize, mixing keys the table must free (duplicated) with keys it must not (constant)
	void op_object_fill()
	{
		int pi = pick([](const Handle &x) { return json_object_get_type(x.p) == json_type_object; });
		if (pi < 0)
			return;
		json_object *parent = hs[pi].p;
		long pid = hs[pi].id;
		static const char *keys[] = {"f00", "f01", "f02", "f03", "f04", "f05", "f06", "f07", "f08", "f09", "f10", "f11", "f12", "f13", "f14", "f15",
		                             "f16", "f17", "f18", "f19", "f20", "f21", "f22", "f23", "f24", "f25", "f26", "f27", "f28", "f29", "f30", "f31"};
		size_t n = (size_t)c.range(6, 32), nconst = 0, ndup = 0;
		for (size_t i = 0; i < n; i++)
		{
			json_object *v = json_object_new_int64((int64_t)i);
			long id = track(v);
			bool konst = c.coin(35);
			int r = konst ? json_object_object_add_ex(parent, keys[i], v, JSON_C_OBJECT_ADD_CONSTANT_KEY) : json_object_object_add(parent, keys[i], v);
			if (r != 0)
				ctx.fail("retval", "object_add returned " + str(r));
			(konst ? nconst : ndup)++;
			hs.push_back({v, id, 0});
		}
		log("object_fill #" + str(pid) + " with " + str(n) + " members (" + str(nconst) + " constant keys)");
		if (json_object_object_length(parent) > 11 && nconst && ndup)
			f_fill = true;
		settle("object_fill");
	}
	void op_object_del()
	{
		int pi = pick([](const Handle &x) { return json_object_get_type(x.p) == json_type_object && json_object_object_length(x.p) > 0; });
		if (pi < 0)
			return;
		json_object *parent = hs[pi].p;
		long pid = hs[pi].id;
		std::vector<std::string> keys;
		json_object_iterator it = json_object_iter_begin(parent), e = json_object_iter_end(parent);
		while (!json_object_iter_equal(&it, &e))
		{
			keys.push_back(json_object_iter_peek_name(&it));
			json_object_iter_next(&it);
		}
		std::string k = c.coin(10) ? "absent-key" : keys[c.pickn(keys.size())];
		json_object *ex = nullptr;
		if (json_object_object_get_ex(parent, k.c_str(), &ex) && ex && find(ex) >= 0 && hs[find(ex)].owned > 0)
			f_replace_shared = true;
		json_object_object_del(parent, k.c_str());
		log("object_del #" + str(pid) + "[" + quote(k, 20) + "]");
		settle("object_del");
	}
	void op_array()
	{
		int pi = pick([](const Handle &x) { return json_object_get_type(x.p) == json_type_array && json_object_array_length(x.p) > 0; });
		if (pi < 0 || c.coin(35))
			pi = pick([](const Handle &x) { return json_object_get_type(x.p) == json_type_array; });
		if (pi < 0)
			return;
		json_object *parent = hs[pi].p;
		long pid = hs[pi].id;
		size_t len = json_object_array_length(parent);
		int kind = (int)c.pick({5, 5, 4, 4, 2});
		if (kind == 3)
		{
			if (len == 0)
				return;
			size_t idx = c.pickn(len), cnt = 1 + c.pickn(std::min<size_t>(3, len - idx));
			if (c.coin(10))
				cnt = len + 5; // must fail
			else if (c.coin(6))
				cnt = SIZE_MAX - (size_t)c.pickn(idx + 2); // idx + count wraps: must fail, nothing released
			int r = json_object_array_del_idx(parent, idx, cnt);
			log("array_del_idx #" + str(pid) + " " + str(idx) + "," + str(cnt) + " -> " + str(r));
			if ((r == 0) != (cnt <= len - idx))
				ctx.fail("retval", "del_idx(" + str(idx) + "," + str(cnt) + ") on length " + str(len) + " returned " + str(r));
			settle("array_del_idx");
			return;
		}
		if (kind == 4)
		{
			// must fail: absurd index; ownership stays with the harness
			int vi = value_for_transfer(parent);
			if (vi < 0)
				return;
			json_object *val = hs[vi].p;
			int r = c.coin(50) ? json_object_array_put_idx(parent, SIZE_MAX - c.pickn(3), val) : json_object_array_insert_idx(parent, SIZE_MAX / 4, val);
			log("array put/insert at a huge index #" + str(pid) + " value #" + str(hs[vi].id) + " -> " + str(r));
			if (r == 0)
				ctx.fail("retval", "put_idx at a huge index succeeded");
			f_failed_transfer = true;
			settle("array_put_idx(huge)");
			return;
		}
		bool null_value = c.coin(8);
		int vi = null_value ? -1 : value_for_transfer(parent);
		if (!null_value && vi < 0)
			return;
		json_object *val = null_value ? nullptr : hs[vi].p;
		long vid = null_value ? 0 : hs[vi].id;
		int r;
		std::string what;
		if (kind == 0)
		{
			r = json_object_array_add(parent, val);
			what = "array_add";
		}
		else if (kind == 1)
		{
			size_t idx = c.coin(60) && len ? c.pickn(len) : len + c.pickn(4);
			if (idx < len)
			{
				json_object *old = json_object_array_get_idx(parent, idx);
				if (old)
					f_put_idx_occupied = true;
				if (old && find(old) >= 0 && hs[find(old)].owned > 0)
					f_replace_shared = true;
			}
			r = json_object_array_put_idx(parent, idx, val);
			what = "array_put_idx " + str(idx);
		}
		else
		{
			size_t idx = len ? c.pickn(len + 2) : c.pickn(2);
			r = json_object_array_insert_idx(parent, idx, val);
			what = "array_insert_idx " + str(idx);
		}
		log(what + " #" + str(pid) + " value #" + str(vid));
		if (r != 0)
			ctx.fail("retval", what + " returned " + str(r));
		if (!null_value)
			hs[find(val)].owned--;
		settle(what);
	}
	void op_userdata()
	{
		int i = pick([](const Handle &x) { return x.id != 0; });
		if (i < 0)
			return;
		long id = hs[i].id;
		UD *old = cur[id];
		UD *nu = new UD{id, old->gen + 1};
		uds.push_back(nu);
		ud2id[nu] = id;
		cur[id] = nu;
		if (c.coin(50))
			json_object_set_userdata(hs[i].p, nu, ud_release);
		else
			json_object_set_serializer(hs[i].p, c.coin(50) ? nullptr : json_object_userdata_to_json_string_stub, nu, ud_release);
		log("set_userdata/serializer #" + str(id));
		f_ud = true;
		settle("set_userdata", id, old->gen);
	}
	static int json_object_userdata_to_json_string_stub(json_object *, printbuf *pb, int, int) { return printbuf_memappend(pb, "0", 1); }
	// A delete callback registered with a NULL cookie is still a callback: it runs exactly once, when it is replaced
	// or when the node dies (json_object.h documents no exception for NULL user data).
	static int g_null_a, g_null_b;
	static void null_cb_a(json_object *, void *ud) { g_null_a += ud == nullptr ? 1 : 100; }
	static void null_cb_b(json_object *, void *ud) { g_null_b += ud == nullptr ? 1 : 100; }
	void op_null_cookie()
	{
		g_null_a = g_null_b = 0;
		json_object *n = c.coin(50) ? json_object_new_int(5) : json_object_new_array();
		if (c.coin(50))
			json_object_set_userdata(n, nullptr, null_cb_a);
		else
			json_object_set_serializer(n, c.coin(50) ? nullptr : json_object_userdata_to_json_string_stub, nullptr, null_cb_a);
		int expect_b = 0;
		switch (c.pickn(4))
		{
		case 0: json_object_set_userdata(n, nullptr, null_cb_b); expect_b = 1; break;
		case 1: json_object_set_serializer(n, nullptr, nullptr, nullptr); break; // the documented reset form
		case 2: json_object_set_serializer(n, json_object_userdata_to_json_string_stub, nullptr, null_cb_b); expect_b = 1; break;
		default: break; // no replacement: the callback runs when the node dies
		}
		int a_before_put = g_null_a;
		json_object_put(n);
		log("null-cookie callbacks");
		if (g_null_a != 1 || g_null_b != expect_b)
			ctx.fail("null-cookie-callback", "delete callbacks registered with a NULL cookie: first ran " + str(g_null_a) + "x (" + str(a_before_put) + "x before the node died), second " +
			                                     str(g_null_b) + "x, expected 1 and " + str(expect_b));
		f_nullcookie = true;
	}

	// deep copy with a tracking shallow-copy callback
	static W *self;
	static int tracking_copy(json_object *src, json_object *parent, const char *key, size_t index, json_object **dst)
	{
		int rc = json_c_shallow_copy_default(src, parent, key, index, dst);
		if (rc < 0)
			return rc;
		// the default copies the serialiser pointer; use the type's own so the copy does not depend on our user data
		json_object_set_serializer(*dst, nullptr, nullptr, nullptr);
		self->track(*dst);
		return 2; // user data set
	}
	void op_deep_copy()
	{
		int i = pick([](const Handle &x) { return true; });
		if (i < 0)
			return;
		json_object *dst = nullptr;
		long sid = hs[i].id;
		if (c.coin(25))
		{
			// the default shallow copy cannot copy foreign user data: documented failure, nothing may be left behind
			int r = json_object_deep_copy(hs[i].p, &dst, nullptr);
			log("deep_copy #" + str(sid) + " with the default callback -> " + str(r));
			if (r == 0)
			{
				// only possible for an untracked source
				hs.push_back({dst, 0, 1});
			}
			else if (dst)
				ctx.fail("deep-copy", "failed deep copy left *dst set");
			f_failed_transfer = true;
			settle("deep_copy(default)");
			return;
		}
		self = this;
		int r = json_object_deep_copy(hs[i].p, &dst, tracking_copy);
		log("deep_copy #" + str(sid) + " -> rc " + str(r));
		if (r != 0 || !dst)
			ctx.fail("deep-copy", "tracking deep copy failed");
		hs.push_back({dst, id_of(dst), 1});
		f_copy = true;
		settle("deep_copy");
	}
	void op_pointer_set()
	{
		int ri = pick([](const Handle &x) { return x.owned > 0 && (json_object_get_type(x.p) == json_type_object || json_object_get_type(x.p) == json_type_array); });
		if (ri < 0)
			return;
		json_object *root = hs[ri].p;
		long rid = hs[ri].id;
		std::string path;
		json_object *deep_parent = nullptr;
		bool will_fail = false, replace_root = false;
		switch (c.pick({4, 3, 2, 2, 1}))
		{
		case 0: path = json_object_get_type(root) == json_type_object ? "/a" : "/0"; break;
		case 1: path = json_object_get_type(root) == json_type_object ? "/a~1b" : "/-"; break;
		case 2: { // second level through an existing child container
			std::string first;
			json_object *child = nullptr;
			if (json_object_get_type(root) == json_type_object)
			{
				json_object_iterator it = json_object_iter_begin(root), e = json_object_iter_end(root);
				while (!json_object_iter_equal(&it, &e))
				{
					json_object *v = json_object_iter_peek_value(&it);
					if (v && (json_object_get_type(v) == json_type_object || json_object_get_type(v) == json_type_array) &&
					    !strchr(json_object_iter_peek_name(&it), '/') && !strchr(json_object_iter_peek_name(&it), '~'))
					{
						first = json_object_iter_peek_name(&it);
						child = v;
						break;
					}
					json_object_iter_next(&it);
				}
			}
			else
				for (size_t k = 0; k < json_object_array_length(root); k++)
				{
					json_object *v = json_object_array_get_idx(root, k);
					if (v && (json_object_get_type(v) == json_type_object || json_object_get_type(v) == json_type_array))
					{
						first = str(k);
						child = v;
						break;
					}
				}
			if (!child)
				return;
			deep_parent = child;
			path = "/" + first + (json_object_get_type(child) == json_type_object ? "/c" : "/-");
			break;
		}
		case 3:
			path = "/no/such/parent";
			will_fail = true;
			break;
		default:
			path = "";
			replace_root = true;
			break;
		}
		if (json_object_get_type(root) == json_type_object && c.coin(8))
		{
			// refused at the last step: an object cannot be made a member of itself. The caller keeps its reference,
			// nothing changes, and whatever the call allocated on the way (the unescaped member name) is released.
			json_object *obj = root;
			json_object_get(root);
			static const char *selfp[] = {"/self", "/a~1b", "/a", "/k~0"};
			const char *sp = selfp[c.pickn(4)];
			int r = json_pointer_set(&obj, sp, root);
			log("json_pointer_set #" + str(rid) + " " + quote(sp) + " = itself -> " + str(r));
			if (r == 0 || obj != root)
				ctx.fail("retval", "json_pointer_set stored an object as a member of itself");
			json_object_put(root);
			f_ptr = f_failed_transfer = true;
			settle("json_pointer_set(self)");
			return;
		}
		int vi = value_for_transfer(root);
		if (vi < 0)
			return;
		// the target's parent must not be inside the value (cycle) - value_for_transfer checked the root only; re-check for deeper parents
		json_object *val = hs[vi].p;
		long vid = hs[vi].id;
		if (in_subtree(val, root) || (deep_parent && (val == deep_parent || in_subtree(val, deep_parent))))
		{
			// would create a cycle: give the extra reference back and skip
			return;
		}
		json_object *obj = root;
		int r = json_pointer_set(&obj, path.c_str(), val);
		log("json_pointer_set #" + str(rid) + " " + quote(path) + " = #" + str(vid) + " -> " + str(r));
		f_ptr = true;
		if (will_fail)
		{
			if (r == 0)
				ctx.fail("retval", "json_pointer_set with a dangling path succeeded");
			f_failed_transfer = true;
			settle("json_pointer_set(fail)");
			return;
		}
		if (r != 0)
		{
			// e.g. second-level target vanished: treated as a failed operation, ownership stays
			f_failed_transfer = true;
			settle("json_pointer_set(fail)");
			return;
		}
		if (replace_root)
		{
			// the old root lost the reference we held for it; *obj is now the value, whose reference we keep
			if (obj != val)
				ctx.fail("pointer-set", "json_pointer_set(\"\") did not store the value in *obj");
			hs[find(root)].owned--;
		}
		else
			hs[find(val)].owned--;
		settle("json_pointer_set");
	}
	void op_patch()
	{
		int ri = pick([](const Handle &x) { return x.owned > 0 && (json_object_get_type(x.p) == json_type_object || json_object_get_type(x.p) == json_type_array); });
		if (ri < 0)
			return;
		json_object *root = hs[ri].p;
		long rid = hs[ri].id;
		bool is_obj = json_object_get_type(root) == json_type_object;
		std::vector<std::string> locs;
		if (is_obj)
		{
			json_object_iterator it = json_object_iter_begin(root), e = json_object_iter_end(root);
			while (!json_object_iter_equal(&it, &e))
			{
				std::string k = json_object_iter_peek_name(&it), esc;
				for (char ch : k)
					esc += ch == '~' ? "~0" : ch == '/' ? "~1" : std::string(1, ch);
				locs.push_back("/" + esc);
				json_object_iter_next(&it);
			}
		}
		else
			for (size_t k = 0; k < json_object_array_length(root); k++)
				locs.push_back("/" + str(k));
		auto loc = [&]() { return locs.empty() || c.coin(15) ? std::string("/missing") : locs[c.pickn(locs.size())]; };
		std::string newloc = is_obj ? "/p" + str(c.pickn(3)) : "/-";
		if (c.coin(25))
		{
			// a target that cannot be set (missing parent, scalar parent, index past the end): move/copy/add must fail cleanly
			static const char *bad[] = {"/no/such/parent", "/p0/x/y", "/99", "/-/x"};
			newloc = bad[c.pickn(4)];
		}
		std::string text = "[";
		size_t nops = 1 + c.pickn(3);
		for (size_t k = 0; k < nops; k++)
		{
			if (k)
				text += ",";
			switch (c.pickn(6))
			{
			case 0: text += "{\"op\":\"add\",\"path\":\"" + newloc + "\",\"value\":{\"n\":[1,2]}}"; break;
			case 1: text += "{\"op\":\"remove\",\"path\":\"" + loc() + "\"}"; break;
			case 2: text += "{\"op\":\"replace\",\"path\":\"" + loc() + "\",\"value\":[true]}"; break;
			case 3: text += "{\"op\":\"move\",\"from\":\"" + loc() + "\",\"path\":\"" + newloc + "\"}"; break;
			case 4: text += "{\"op\":\"copy\",\"from\":\"" + loc() + "\",\"path\":\"" + newloc + "\"}"; break;
			default: text += "{\"op\":\"test\",\"path\":\"" + loc() + "\",\"value\":1}"; break;
			}
		}
		text += "]";
		json_object *patch = json_tokener_parse(text.c_str());
		if (!patch)
			ctx.fail("HARNESS", "patch text did not parse: " + text);
		json_object *base = root;
		struct json_patch_error pe;
		int r = json_patch_apply(nullptr, patch, &base, &pe);
		json_object_put(patch);
		log("json_patch_apply on #" + str(rid) + " " + text + " -> " + str(r));
		if (base != root)
			ctx.fail("patch", "the root pointer changed although no operation addressed \"\"");
		f_patch = true;
		// whatever succeeded or failed: nothing may be leaked or freed early (settle walks everything)
		settle("json_patch_apply");
	}
	void finish()
	{
		// release every reference the harness still owns
		while (true)
		{
			int i = -1;
			for (size_t k = 0; k < hs.size(); k++)
				if (hs[k].owned > 0)
					i = (int)k;
			if (i < 0)
				break;
			long id = hs[i].id;
			json_object *p = hs[i].p;
			hs[i].owned--;
			int r = json_object_put(p);
			bool freed = false;
			for (auto &e : g_log)
				if (e.id == id)
					freed = true;
			if (id && (r == 1) != freed)
				ctx.fail("put-return", "final put(#" + str(id) + ") returned " + str(r) + ", destroyed=" + str(freed));
			if (!id && r == 1)
			{
				hs.erase(hs.begin() + i);
			}
			settle("final put");
		}
		if (!alive.empty())
			ctx.fail("leak", str(alive.size()) + " tracked node(s) never destroyed after every reference was released");
	}
};
W *W::self = nullptr;
int W::g_null_a = 0;
int W::g_null_b = 0;
} // namespace

void run_case(Choices &c, Ctx &ctx)
{
	LeakScope leak;
	g_log.clear();
	{
		W w(ctx, c);
		// JSON null is the NULL pointer: acquiring / releasing it is a no-op (json_object.h)
		if (json_object_get(nullptr) != nullptr || json_object_put(nullptr) != 0)
			ctx.fail("null-node", "json_object_get(NULL)/json_object_put(NULL) are not no-ops");
		size_t nops = 4 + c.len(60);
		for (size_t i = 0; i < nops; i++)
		{
			SpanGuard g(c);
			switch (c.pick({12, 5, 7, 16, 6, 18, 4, 5, 6, 5, 2, 1}))
			{
			case 0: w.create(); break;
			case 1: w.op_get(); break;
			case 2: w.op_put(); break;
			case 3: w.op_object_add(); break;
			case 4: w.op_object_del(); break;
			case 5: w.op_array(); break;
			case 6: w.op_userdata(); break;
			case 7: w.op_deep_copy(); break;
			case 8: w.op_pointer_set(); break;
			case 10: w.op_object_fill(); break;
			case 11: w.op_null_cookie(); break;
			default: w.op_patch(); break;
			}
		}
		w.finish();
		if (w.f_replace_shared)
			ctx.label("replace_or_delete_of_shared_value");
		if (w.f_put_idx_occupied)
			ctx.label("put_idx_over_occupied_slot");
		if (w.f_failed_transfer)
			ctx.label("failed_transfer");
		if (w.f_cascade)
			ctx.label("cascade");
		if (w.f_fill)
			ctx.label("object_resized_with_constant_and_duplicated_keys");
		if (w.f_nullcookie)
			ctx.label("callback_with_null_cookie");
		if (w.f_ud)
			ctx.label("userdata_replaced");
		if (w.f_copy)
			ctx.label("deep_copy");
		if (w.f_ptr)
			ctx.label("pointer_set");
		if (w.f_patch)
			ctx.label("patch");
		if (w.f_replace_shared || w.f_put_idx_occupied || w.f_failed_transfer)
			ctx.nontrivial(w.h);
		ctx.note(w.trace);
	}
	leak.check(ctx);
}
#include "engine_main.hpp"
