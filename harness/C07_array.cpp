// C07 – a JSON array behaves as a sequence with null gaps under any operation history.
#include "common.hpp"
#include <climits>
using namespace vf;

const char *HARNESS_ID = "C07";
std::vector<ModeInfo> harness_modes()
{
	return {{"hist", 0, "histories of add/put_idx/insert_idx/del_idx/shrink/sort/bsearch/get_idx with boundary-biased and SIZE_MAX-adjacent arguments vs a vector model"},
	        {"small", 6 * 6 * 6 * 6 * 6 * 6, "all sequences of 6 operations drawn from 6 kinds on arrays of initial capacity 0..2 (arguments derived from the index)"}};
}

namespace {
static std::set<long> g_destroyed;
static void del_cb(json_object *, void *ud)
{
	long id = (long)(intptr_t)ud;
	if (!g_destroyed.insert(id).second)
		g_destroyed.insert(-1000000 - id); // double destruction marker
}
static int cmp_nodes(const void *a, const void *b)
{
	json_object *const *x = (json_object *const *)a, *const *y = (json_object *const *)b;
	// NULL sorts first
	if (!*x || !*y)
		return (*x ? 1 : 0) - (*y ? 1 : 0);
	int64_t u = json_object_get_int64(*x), v = json_object_get_int64(*y);
	return u < v ? -1 : u > v ? 1 : 0;
}

struct El {
	json_object *p; // NULL = null gap
	long id;
	int64_t val;
};

struct A {
	Ctx &ctx;
	json_object *arr;
	std::vector<El> m;
	std::set<long> expect_dead;
	long next_id = 1;
	std::string trace;
	uint64_t h = 0;
	bool sorted = false;
	bool f_gap = false, f_refused = false, f_realloc = false, f_overwrite = false, f_sort = false, f_bsearch = false, f_delrange = false, f_hugeidx = false;
	A(Ctx &c, int cap) : ctx(c)
	{
		arr = json_object_new_array_ext(cap);
		if (!arr)
			ctx.fail("create", "json_object_new_array_ext(" + str(cap) + ") returned NULL");
		g_destroyed.clear();
	}
	void log(const std::string &s)
	{
		h = hash_str(s, h);
		if (ctx.verbose)
			trace += s + "\n";
	}
	El fresh(Choices *c, int64_t forced = -1)
	{
		El e;
		e.id = next_id++;
		e.val = forced >= 0 ? forced : (c ? (int64_t)c->range(0, 20) : e.id % 7);
		e.p = json_object_new_int64(e.val);
		json_object_set_userdata(e.p, (void *)(intptr_t)e.id, del_cb);
		return e;
	}
	size_t cap() { return json_object_get_array(arr)->size; }
	void verify(const char *op)
	{
		size_t len = json_object_array_length(arr);
		if (len != m.size())
			ctx.fail("length", std::string(op) + ": length " + str(len) + " model " + str(m.size()));
		for (size_t i = 0; i < m.size(); i++)
		{
			json_object *g = json_object_array_get_idx(arr, i);
			if (g != m[i].p)
				ctx.fail("element", std::string(op) + ": element " + str(i) + " is " + (g ? "a different node" : "null") + ", model has " +
				                        (m[i].p ? "node #" + str(m[i].id) : std::string("null")));
		}
		for (size_t k = 0; k < 3; k++)
			if (json_object_array_get_idx(arr, m.size() + k) != nullptr)
				ctx.fail("past-end", std::string(op) + ": read past the end is not null");
		if (json_object_array_get_idx(arr, SIZE_MAX) != nullptr || json_object_array_get_idx(arr, SIZE_MAX / 2) != nullptr)
			ctx.fail("past-end", std::string(op) + ": read at a huge index is not null");
		if (g_destroyed != expect_dead)
		{
			std::string a, b;
			for (long x : g_destroyed)
				a += str(x) + " ";
			for (long x : expect_dead)
				b += str(x) + " ";
			ctx.fail("release", std::string(op) + ": destroyed elements {" + a + "} expected {" + b + "}");
		}
	}
	void kill(const El &e)
	{
		if (e.p)
			expect_dead.insert(e.id);
	}
	void add(El e)
	{
		size_t c0 = cap();
		int r = json_object_array_add(arr, e.p);
		log("add #" + str(e.id));
		if (r != 0)
			ctx.fail("retval", "array_add returned " + str(r));
		m.push_back(e);
		sorted = false;
		if (cap() != c0)
			f_realloc = true;
		verify("add");
	}
	void refused(int r, const std::string &what, El *e)
	{
		log(what + " (must be refused)");
		if (r == 0)
			ctx.fail("not-refused", what + " returned 0");
		f_refused = true;
		if (e && e->p)
		{
			// ownership stays with the caller
			if (g_destroyed.count(e->id))
				ctx.fail("release", what + " failed but destroyed the value");
			json_object_put(e->p);
			expect_dead.insert(e->id);
		}
		verify(what.c_str());
	}
	void put(size_t idx, El e)
	{
		size_t c0 = cap();
		int r = json_object_array_put_idx(arr, idx, e.p);
		if (idx >= SIZE_MAX / 8 || (idx >= ((size_t)1 << 40) && r != 0))
		{
			// beyond what can be addressed, or (2^40..2^60) beyond what this machine can allocate: refused, nothing changes
			f_hugeidx = true;
			refused(r, "put_idx(" + str(idx) + ")", &e);
			return;
		}
		if (idx >= ((size_t)1 << 40))
			ctx.fail("HARNESS", "a 2^40-slot array was allocated; the model cannot follow");
		log("put_idx " + str(idx) + " #" + str(e.id));
		if (r != 0)
			ctx.fail("retval", "put_idx(" + str(idx) + ") returned " + str(r) + " on an array of length " + str(m.size()));
		if (idx < m.size())
		{
			if (m[idx].p)
				f_overwrite = true;
			kill(m[idx]);
			m[idx] = e;
		}
		else
		{
			if (idx > m.size())
				f_gap = true;
			while (m.size() < idx)
				m.push_back(El{nullptr, 0, 0});
			m.push_back(e);
		}
		sorted = false;
		if (cap() != c0)
			f_realloc = true;
		verify("put_idx");
	}
	void insert(size_t idx, El e)
	{
		size_t c0 = cap();
		int r = json_object_array_insert_idx(arr, idx, e.p);
		if (idx >= SIZE_MAX / 8 || (idx >= ((size_t)1 << 40) && r != 0))
		{
			f_hugeidx = true;
			refused(r, "insert_idx(" + str(idx) + ")", &e);
			return;
		}
		log("insert_idx " + str(idx) + " #" + str(e.id));
		if (r != 0)
			ctx.fail("retval", "insert_idx(" + str(idx) + ") returned " + str(r));
		if (idx < m.size())
			m.insert(m.begin() + idx, e);
		else
		{
			if (idx > m.size())
				f_gap = true;
			while (m.size() < idx)
				m.push_back(El{nullptr, 0, 0});
			m.push_back(e);
		}
		sorted = false;
		if (cap() != c0)
			f_realloc = true;
		verify("insert_idx");
	}
	void del(size_t idx, size_t count)
	{
		int r = json_object_array_del_idx(arr, idx, count);
		bool valid = idx < m.size() && count <= m.size() - idx;
		if (!valid)
		{
			// out of range (idx == len with count 0 included: header is silent, only "nothing changed" is required)
			log("del_idx " + str(idx) + "," + str(count) + " (out of range)");
			if (r == 0 && !(idx == m.size() && count == 0))
				ctx.fail("not-refused", "del_idx(" + str(idx) + "," + str(count) + ") on length " + str(m.size()) + " returned 0");
			f_refused = true;
			verify("del_idx(out of range)");
			return;
		}
		log("del_idx " + str(idx) + "," + str(count));
		if (r != 0)
			ctx.fail("retval", "del_idx(" + str(idx) + "," + str(count) + ") on length " + str(m.size()) + " returned " + str(r));
		for (size_t i = idx; i < idx + count; i++)
			kill(m[i]);
		m.erase(m.begin() + idx, m.begin() + idx + count);
		if (count >= 2)
			f_delrange = true;
		verify("del_idx");
	}
	void shrink(int slots)
	{
		int r = json_object_array_shrink(arr, slots);
		log("shrink " + str(slots));
		if (r != 0)
			ctx.fail("retval", "shrink(" + str(slots) + ") returned " + str(r));
		verify("shrink");
	}
	void sort()
	{
		json_object_array_sort(arr, cmp_nodes);
		log("sort");
		// permutation ordered by the comparator
		std::multiset<json_object *> before, after;
		for (auto &e : m)
			before.insert(e.p);
		size_t len = json_object_array_length(arr);
		if (len != m.size())
			ctx.fail("length", "sort changed the length");
		std::vector<El> nm;
		std::map<json_object *, El> byptr;
		for (auto &o : m)
			if (o.p)
				byptr[o.p] = o;
		for (size_t i = 0; i < len; i++)
		{
			json_object *g = json_object_array_get_idx(arr, i);
			after.insert(g);
			El e{g, 0, 0};
			auto it = byptr.find(g);
			if (g && it != byptr.end())
				e = it->second;
			nm.push_back(e);
		}
		if (before != after)
			ctx.fail("sort", "sorted array is not a permutation of the elements");
		for (size_t i = 1; i < len; i++)
		{
			json_object *a = nm[i - 1].p, *b = nm[i].p;
			if (cmp_nodes(&a, &b) > 0)
				ctx.fail("sort", "sorted array is not ordered at position " + str(i));
		}
		m = nm;
		sorted = true;
		f_sort = true;
		verify("sort");
	}
	void bsearch(int64_t v)
	{
		json_object *key = json_object_new_int64(v);
		json_object *r = json_object_array_bsearch(key, arr, cmp_nodes);
		bool have = false;
		for (auto &e : m)
			if (e.p && e.val == v)
				have = true;
		json_object_put(key);
		log("bsearch " + str(v));
		if (have != (r != nullptr))
			ctx.fail("bsearch", "bsearch(" + str(v) + ") " + (r ? "found" : "did not find") + " an element, model says " + (have ? "present" : "absent"));
		if (r && json_object_get_int64(r) != v)
			ctx.fail("bsearch", "bsearch returned an element with another value");
		f_bsearch = true;
	}
	void finish()
	{
		for (auto &e : m)
			kill(e);
		if (json_object_put(arr) != 1)
			ctx.fail("put", "final put of the array did not free it");
		if (g_destroyed != expect_dead)
			ctx.fail("release", "after destroying the array the destroyed set differs from the model");
	}
};

static size_t pick_idx(Choices &c, A &a)
{
	size_t len = a.m.size(), cap = a.cap();
	if (len > 3000)
		return c.pickn(len + 1); // bounded data volume: no further growth by gaps
	switch (c.pick({4, 4, 4, 3, 3, 3, 2, 2}))
	{
	case 0: return 0;
	case 1: return len ? len - 1 : 0;
	case 2: return len;
	case 3: return len + 1;
	case 4: return len + (size_t)c.range(2, 70);
	case 5: {
		long v = (long)cap + c.irange(-1, 1);
		return v < 0 ? 0 : (size_t)v;
	}
	case 6: return len ? (size_t)c.range(0, len - 1) : 0;
	default: return len + (size_t)c.range(70, 600);
	}
}
static size_t huge_idx(Choices &c)
{
	switch (c.pickn(7))
	{
	case 5: return ((size_t)1 << c.range(40, 59)) + (size_t)c.range(0, 1000); // passes the overflow guards, fails in the allocator
	case 6: return ((size_t)1 << 60) - (size_t)c.range(1, 1000);
	case 0: return SIZE_MAX;
	case 1: return SIZE_MAX - 1;
	case 2: return SIZE_MAX / 8;
	case 3: return SIZE_MAX / 8 + (size_t)c.range(0, 1000);
	default: return SIZE_MAX - (size_t)c.range(0, 100000);
	}
}
} // namespace

void run_case(Choices &c, Ctx &ctx)
{
	LeakScope leak;
	if (ctx.mode == "small")
	{
		uint64_t idx = c.bits(8);
		A a(ctx, (int)(idx % 3));
		uint64_t x = idx;
		for (int step = 0; step < 6; step++)
		{
			int op = (int)(x % 6);
			x /= 6;
			size_t len = a.m.size();
			switch (op)
			{
			case 0: a.add(a.fresh(nullptr)); break;
			case 1: a.put(len + (step & 1 ? 2 : 0), a.fresh(nullptr)); break;
			case 2: a.put(len ? len / 2 : 0, a.fresh(nullptr)); break;
			case 3: a.insert(len ? (step % len) : 1, a.fresh(nullptr)); break;
			case 4: a.del(step % 2, 1 + (step & 1)); break;
			default: a.shrink(step & 1); break;
			}
		}
		a.finish();
		ctx.nontrivial(idx);
		ctx.note(a.trace);
		leak.check(ctx);
		return;
	}
	int cap0 = c.coin(30) ? 0 : (int)c.range(0, 40);
	A a(ctx, cap0);
	size_t nops = 1 + c.len(40);
	for (size_t i = 0; i < nops; i++)
	{
		SpanGuard g(c);
		switch (c.pick({20, 18, 14, 14, 6, 5, 6, 5}))
		{
		case 0: a.add(c.coin(10) ? El{nullptr, 0, 0} : a.fresh(&c)); break;
		case 1: a.put(pick_idx(c, a), c.coin(10) ? El{nullptr, 0, 0} : a.fresh(&c)); break;
		case 2: a.insert(pick_idx(c, a), c.coin(10) ? El{nullptr, 0, 0} : a.fresh(&c)); break;
		case 3: {
			size_t len = a.m.size();
			size_t idx = pick_idx(c, a);
			size_t count;
			switch (c.pick({4, 3, 2, 2, 1}))
			{
			case 0: count = 1; break;
			case 1: count = len > idx ? len - idx : 0; break;
			case 2: count = (len > idx ? len - idx : 0) + 1; break;
			case 3: count = (size_t)c.range(0, 5); break;
			default: count = SIZE_MAX - (size_t)c.range(0, 3); break;
			}
			if (c.coin(5))
				idx = huge_idx(c);
			a.del(idx, count);
			break;
		}
		case 4: a.shrink((int)c.range(0, 5)); break;
		case 5: a.sort(); break;
		case 6:
			if (a.sorted)
				a.bsearch((int64_t)c.range(0, 22));
			else
				a.sort();
			break;
		default: {
			size_t hi = huge_idx(c);
			if (c.coin(50))
				a.put(hi, a.fresh(&c));
			else
				a.insert(hi, a.fresh(&c));
			break;
		}
		}
	}
	a.finish();
	if (a.f_gap)
		ctx.label("null_gap");
	if (a.f_refused)
		ctx.label("refused");
	if (a.f_realloc)
		ctx.label("realloc");
	if (a.f_overwrite)
		ctx.label("overwrite");
	if (a.f_sort)
		ctx.label("sort");
	if (a.f_bsearch)
		ctx.label("bsearch");
	if (a.f_delrange)
		ctx.label("del_range");
	if (a.f_hugeidx)
		ctx.label("huge_index");
	if (cap0 == 0)
		ctx.label("zero_capacity");
	if ((a.f_gap || a.f_overwrite || a.f_delrange) && a.f_realloc)
		ctx.nontrivial(a.h);
	ctx.note("initial capacity " + str(cap0) + "\n" + a.trace);
	leak.check(ctx);
}
#include "engine_main.hpp"
