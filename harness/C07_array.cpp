// C07 – a JSON array behaves as a sequence with null gaps under any operation history.
#include "common.hpp"
#include <climits>
using namespace vf;

const char *HARNESS_ID = "C07";
std::vector<ModeInfo> harness_modes()
{
	return {{"hist", 0, "histories of add/put_idx/insert_idx/del_idx/shrink/sort/bsearch/get_idx with boundary-biased and SIZE_MAX-adjacent arguments vs a vector model"},
	        {"small", 6 * 6 * 6 * 6 * 6 * 6, "all sequences of 6 operations drawn from 6 kinds on arrays of initial capacity 0..2 (arguments derived from the index)"},
	        {"al", 0, "the same histories on a bare array_list (arraylist.h) with a counting free function vs a vector model"}};
}

namespace {
static std::set<long> g_destroyed;
static void del_cb(json_object *, void *ud)
{
	long id = (long)(intptr_t)ud;
	if (!g_destroyed.insert(id).second)
		g_destroyed.insert(-1000000 - id); // double destruction marker
}
static int cmp_nodes(const void *a, const void *b)
{
	json_object *const *x = (json_object *const *)a, *const *y = (json_object *const *)b;
	// NULL sorts first
	if (!*x || !*y)
		return (*x ? 1 : 0) - (*y ? 1 : 0);
	int64_t u = json_object_get_int64(*x), v = json_object_get_int64(*y);
	return u < v ? -1 : u > v ? 1 : 0;
}

struct El {
	json_object *p; // NULL = null gap
	long id;
	int64_t val;
};

struct A {
	Ctx &ctx;
	json_object *arr;
	std::vector<El> m;
	std::set<long> expect_dead;
	long next_id = 1;
	std::string trace;
	uint64_t h = 0;
	bool sorted = false;
	bool f_gap = false, f_refused = false, f_realloc = false, f_overwrite = false, f_sort = false, f_bsearch = false, f_delrange = false, f_hugeidx = false, f_again = false;
	A(Ctx &c, int cap) : ctx(c)
	{
		arr = json_object_new_array_ext(cap);
		if (!arr)
			ctx.fail("create", "json_object_new_array_ext(" + str(cap) + ") returned NULL");
		g_destroyed.clear();
	}
	void log(const std::string &s)
	{
		h = hash_str(s, h);
		if (ctx.verbose)
			trace += s + "\n";
	}
	El fresh(Choices *c, int64_t forced = -1)
	{
		El e;
		e.id = next_id++;
		e.val = forced >= 0 ? forced : (c ? (int64_t)c->range(0, 20) : e.id % 7);
		e.p = json_object_new_int64(e.val);
		json_object_set_userdata(e.p, (void *)(intptr_t)e.id, del_cb);
		return e;
	}
	size_t cap() { return json_object_get_array(arr)->size; }
	void verify(const char *op)
	{
		size_t len = json_object_array_length(arr);
		if (len != m.size())
			ctx.fail("length", std::string(op) + ": length " + str(len) + " model " + str(m.size()));
		for (size_t i = 0; i < m.size(); i++)
		{
			json_object *g = json_object_array_get_idx(arr, i);
			if (g != m[i].p)
				ctx.fail("element", std::string(op) + ": element " + str(i) + " is " + (g ? "a different node" : "null") + ", model has " +
				                        (m[i].p ? "node #" + str(m[i].id) : std::string("null")));
		}
		for (size_t k = 0; k < 3; k++)
			if (json_object_array_get_idx(arr, m.size() + k) != nullptr)
				ctx.fail("past-end", std::string(op) + ": read past the end is not null");
		// the same through the list the node exposes
		array_list *al = json_object_get_array(arr);
		if (!al || array_list_length(al) != m.size())
			ctx.fail("length", std::string(op) + ": json_object_get_array()/array_list_length disagrees with the model");
		for (size_t i = 0; i < m.size(); i += (m.size() > 64 ? 7 : 1))
			if (array_list_get_idx(al, i) != (void *)m[i].p)
				ctx.fail("element", std::string(op) + ": array_list_get_idx(" + str(i) + ") on the node's list differs from the model");
		if (array_list_get_idx(al, m.size()) != nullptr)
			ctx.fail("past-end", std::string(op) + ": array_list_get_idx past the end is not NULL");
		if (json_object_array_get_idx(arr, SIZE_MAX) != nullptr || json_object_array_get_idx(arr, SIZE_MAX / 2) != nullptr)
			ctx.fail("past-end", std::string(op) + ": read at a huge index is not null");
		if (g_destroyed != expect_dead)
		{
			std::string a, b;
			for (long x : g_destroyed)
				a += str(x) + " ";
			for (long x : expect_dead)
				b += str(x) + " ";
			ctx.fail("release", std::string(op) + ": destroyed elements {" + a + "} expected {" + b + "}");
		}
	}
	// an element removed from a slot is destroyed iff no other slot still holds it (the same node may sit in several slots)
	void kill(const El &e)
	{
		if (!e.p)
			return;
		for (auto &x : m)
			if (x.p == e.p)
				return;
		expect_dead.insert(e.id);
	}
	// a node that is already an element, with a reference of the caller's own to hand over
	El again(Choices &c)
	{
		std::vector<size_t> occ;
		for (size_t i = 0; i < m.size(); i++)
			if (m[i].p)
				occ.push_back(i);
		if (occ.empty())
			return fresh(&c);
		El e = m[occ[c.pickn(occ.size())]];
		json_object_get(e.p);
		f_again = true;
		return e;
	}
	void add(El e)
	{
		size_t c0 = cap();
		int r = json_object_array_add(arr, e.p);
		log("add #" + str(e.id));
		if (r != 0)
			ctx.fail("retval", "array_add returned " + str(r));
		m.push_back(e);
		sorted = false;
		if (cap() != c0)
			f_realloc = true;
		verify("add");
	}
	void refused(int r, const std::string &what, El *e)
	{
		log(what + " (must be refused)");
		if (r == 0)
			ctx.fail("not-refused", what + " returned 0");
		f_refused = true;
		if (e && e->p)
		{
			// ownership stays with the caller
			if (g_destroyed.count(e->id))
				ctx.fail("release", what + " failed but destroyed the value");
			json_object_put(e->p);
			kill(*e);
		}
		verify(what.c_str());
	}
	void put(size_t idx, El e)
	{
		size_t c0 = cap();
		int r = json_object_array_put_idx(arr, idx, e.p);
		if (idx >= SIZE_MAX / 8 || (idx >= ((size_t)1 << 40) && r != 0))
		{
			// beyond what can be addressed, or (2^40..2^60) beyond what this machine can allocate: refused, nothing changes
			f_hugeidx = true;
			refused(r, "put_idx(" + str(idx) + ")", &e);
			return;
		}
		if (idx >= ((size_t)1 << 40))
			ctx.fail("HARNESS", "a 2^40-slot array was allocated; the model cannot follow");
		log("put_idx " + str(idx) + " #" + str(e.id));
		if (r != 0)
			ctx.fail("retval", "put_idx(" + str(idx) + ") returned " + str(r) + " on an array of length " + str(m.size()));
		if (idx < m.size())
		{
			if (m[idx].p)
				f_overwrite = true;
			El old = m[idx];
			m[idx] = e;
			kill(old);
		}
		else
		{
			if (idx > m.size())
				f_gap = true;
			while (m.size() < idx)
				m.push_back(El{nullptr, 0, 0});
			m.push_back(e);
		}
		sorted = false;
		if (cap() != c0)
			f_realloc = true;
		verify("put_idx");
	}
	void insert(size_t idx, El e)
	{
		size_t c0 = cap();
		int r = json_object_array_insert_idx(arr, idx, e.p);
		if (idx >= SIZE_MAX / 8 || (idx >= ((size_t)1 << 40) && r != 0))
		{
			f_hugeidx = true;
			refused(r, "insert_idx(" + str(idx) + ")", &e);
			return;
		}
		log("insert_idx " + str(idx) + " #" + str(e.id));
		if (r != 0)
			ctx.fail("retval", "insert_idx(" + str(idx) + ") returned " + str(r));
		if (idx < m.size())
			m.insert(m.begin() + idx, e);
		else
		{
			if (idx > m.size())
				f_gap = true;
			while (m.size() < idx)
				m.push_back(El{nullptr, 0, 0});
			m.push_back(e);
		}
		sorted = false;
		if (cap() != c0)
			f_realloc = true;
		verify("insert_idx");
	}
	void del(size_t idx, size_t count)
	{
		int r = json_object_array_del_idx(arr, idx, count);
		bool valid = idx < m.size() && count <= m.size() - idx;
		if (!valid)
		{
			// out of range (idx == len with count 0 included: header is silent, only "nothing changed" is required)
			log("del_idx " + str(idx) + "," + str(count) + " (out of range)");
			if (r == 0 && !(idx == m.size() && count == 0))
				ctx.fail("not-refused", "del_idx(" + str(idx) + "," + str(count) + ") on length " + str(m.size()) + " returned 0");
			f_refused = true;
			verify("del_idx(out of range)");
			return;
		}
		log("del_idx " + str(idx) + "," + str(count));
		if (r != 0)
			ctx.fail("retval", "del_idx(" + str(idx) + "," + str(count) + ") on length " + str(m.size()) + " returned " + str(r));
		std::vector<El> olds(m.begin() + idx, m.begin() + idx + count);
		m.erase(m.begin() + idx, m.begin() + idx + count);
		for (auto &o : olds)
			kill(o);
		if (count >= 2)
			f_delrange = true;
		verify("del_idx");
	}
	void shrink_refused(size_t slots)
	{
		// the int parameter of json_object_array_shrink cannot express these; the node's list can be asked directly
		int r = array_list_shrink(json_object_get_array(arr), slots);
		log("array_list_shrink " + str(slots) + " (must be refused)");
		if (r != -1)
			ctx.fail("not-refused", "array_list_shrink(" + str(slots) + ") on the node's list returned " + str(r));
		f_refused = true;
		verify("array_list_shrink(refused)");
	}
	void shrink(int slots)
	{
		int r = json_object_array_shrink(arr, slots);
		log("shrink " + str(slots));
		if (r != 0)
			ctx.fail("retval", "shrink(" + str(slots) + ") returned " + str(r));
		verify("shrink");
	}
	void sort()
	{
		json_object_array_sort(arr, cmp_nodes);
		log("sort");
		// permutation ordered by the comparator
		std::multiset<json_object *> before, after;
		for (auto &e : m)
			before.insert(e.p);
		size_t len = json_object_array_length(arr);
		if (len != m.size())
			ctx.fail("length", "sort changed the length");
		std::vector<El> nm;
		std::map<json_object *, El> byptr;
		for (auto &o : m)
			if (o.p)
				byptr[o.p] = o;
		for (size_t i = 0; i < len; i++)
		{
			json_object *g = json_object_array_get_idx(arr, i);
			after.insert(g);
			El e{g, 0, 0};
			auto it = byptr.find(g);
			if (g && it != byptr.end())
				e = it->second;
			nm.push_back(e);
		}
		if (before != after)
			ctx.fail("sort", "sorted array is not a permutation of the elements");
		for (size_t i = 1; i < len; i++)
		{
			json_object *a = nm[i - 1].p, *b = nm[i].p;
			if (cmp_nodes(&a, &b) > 0)
				ctx.fail("sort", "sorted array is not ordered at position " + str(i));
		}
		m = nm;
		sorted = true;
		f_sort = true;
		verify("sort");
	}
	void bsearch(int64_t v)
	{
		json_object *key = json_object_new_int64(v);
		json_object *r = json_object_array_bsearch(key, arr, cmp_nodes);
		bool have = false;
		for (auto &e : m)
			if (e.p && e.val == v)
				have = true;
		json_object_put(key);
		log("bsearch " + str(v));
		if (have != (r != nullptr))
			ctx.fail("bsearch", "bsearch(" + str(v) + ") " + (r ? "found" : "did not find") + " an element, model says " + (have ? "present" : "absent"));
		if (r && json_object_get_int64(r) != v)
			ctx.fail("bsearch", "bsearch returned an element with another value");
		f_bsearch = true;
	}
	void finish()
	{
		for (auto &e : m)
			if (e.p)
				expect_dead.insert(e.id);
		if (json_object_put(arr) != 1)
			ctx.fail("put", "final put of the array did not free it");
		if (g_destroyed != expect_dead)
			ctx.fail("release", "after destroying the array the destroyed set differs from the model");
	}
};

static size_t pick_idx(Choices &c, A &a)
{
	size_t len = a.m.size(), cap = a.cap();
	if (len > 3000)
		return c.pickn(len + 1); // bounded data volume: no further growth by gaps
	switch (c.pick({4, 4, 4, 3, 3, 3, 2, 2}))
	{
	case 0: return 0;
	case 1: return len ? len - 1 : 0;
	case 2: return len;
	case 3: return len + 1;
	case 4: return len + (size_t)c.range(2, 70);
	case 5: {
		long v = (long)cap + c.irange(-1, 1);
		return v < 0 ? 0 : (size_t)v;
	}
	case 6: return len ? (size_t)c.range(0, len - 1) : 0;
	default: return len + (size_t)c.range(70, 600);
	}
}
static size_t huge_idx(Choices &c)
{
	switch (c.pickn(7))
	{
	case 5: return ((size_t)1 << c.range(40, 59)) + (size_t)c.range(0, 1000); // passes the overflow guards, fails in the allocator
	case 6: return ((size_t)1 << 60) - (size_t)c.range(1, 1000);
	case 0: return SIZE_MAX;
	case 1: return SIZE_MAX - 1;
	case 2: return SIZE_MAX / 8;
	case 3: return SIZE_MAX / 8 + (size_t)c.range(0, 1000);
	default: return SIZE_MAX - (size_t)c.range(0, 100000);
	}
}
// ---- arraylist.h used directly: elements are opaque tokens, the free function counts
static std::map<long, int> g_al_freed;
static void al_free(void *p) { g_al_freed[(long)((intptr_t)p >> 4)]++; }
static int al_cmp(const void *a, const void *b)
{
	intptr_t x = (intptr_t) * (void *const *)a, y = (intptr_t) * (void *const *)b;
	return x < y ? -1 : x > y ? 1 : 0;
}
struct AL {
	Ctx &ctx;
	array_list *al;
	std::vector<long> m; // 0 = NULL slot
	std::map<long, int> want_freed;
	long next_id = 1;
	std::string trace;
	uint64_t h = 0;
	bool sorted = false, f_gap = false, f_refused = false, f_overwrite = false, f_del = false, f_grew = false, f_sorted = false;
	AL(Ctx &c, int cap, bool dflt) : ctx(c)
	{
		g_al_freed.clear();
		al = dflt ? array_list_new(al_free) : array_list_new2(al_free, cap);
		if (!al)
			ctx.fail("create", "array_list_new2(" + str(cap) + ") returned NULL");
		log(dflt ? "array_list_new" : "array_list_new2 " + str(cap));
	}
	void log(const std::string &s)
	{
		h = hash_str(s, h);
		if (ctx.verbose)
			trace += s + "\n";
	}
	static void *tok(long id) { return (void *)(intptr_t)(id << 4); }
	long fresh(Choices &c) { return c.coin(10) ? 0 : next_id++; }
	void check(const char *op)
	{
		if (array_list_length(al) != m.size())
			ctx.fail("length", std::string(op) + ": array_list_length " + str(array_list_length(al)) + ", model " + str(m.size()));
		if (al->length > al->size)
			ctx.fail("bounds", std::string(op) + ": length " + str(al->length) + " exceeds capacity " + str(al->size));
		for (size_t i = 0; i < m.size(); i++)
			if (array_list_get_idx(al, i) != tok(m[i]))
				ctx.fail("content", std::string(op) + ": slot " + str(i) + " holds token " + str((long)((intptr_t)array_list_get_idx(al, i) >> 4)) + ", model " + str(m[i]));
		for (size_t i = m.size(); i < m.size() + 3; i++)
			if (array_list_get_idx(al, i) != nullptr)
				ctx.fail("past-end", std::string(op) + ": read past the end at " + str(i) + " is not NULL");
		if (array_list_get_idx(al, SIZE_MAX) != nullptr)
			ctx.fail("past-end", std::string(op) + ": read at SIZE_MAX is not NULL");
		if (g_al_freed != want_freed)
		{
			std::string d;
			for (auto &kv : g_al_freed)
				if (!want_freed.count(kv.first) || want_freed[kv.first] != kv.second)
					d += " token " + str(kv.first) + " freed " + str(kv.second) + "x";
			for (auto &kv : want_freed)
				if (!g_al_freed.count(kv.first))
					d += " token " + str(kv.first) + " not freed";
			ctx.fail("free-callback", std::string(op) + ": free function calls differ from the model:" + d);
		}
	}
	void released(long id)
	{
		if (id)
			want_freed[id]++;
	}
	bool unalloc(size_t idx) { return idx >= ((size_t)1 << 40); } // cannot be allocated here: must be refused
	void put(size_t idx, long x)
	{
		size_t cap = al->size;
		int r = array_list_put_idx(al, idx, tok(x));
		log("put_idx " + str(idx) + " <- " + str(x));
		if (unalloc(idx))
		{
			if (r != -1)
				ctx.fail("not-refused", "array_list_put_idx(" + str(idx) + ") returned " + str(r));
			f_refused = true;
			check("put_idx(refused)");
			return;
		}
		if (r != 0)
			ctx.fail("retval", "array_list_put_idx(" + str(idx) + ") returned " + str(r));
		if (idx < m.size())
		{
			released(m[idx]);
			if (m[idx])
				f_overwrite = true;
		}
		else
		{
			if (idx > m.size())
				f_gap = true;
			m.resize(idx + 1, 0);
		}
		m[idx] = x;
		sorted = false;
		if (al->size != cap)
			f_grew = true;
		check("put_idx");
	}
	void add(long x)
	{
		size_t cap = al->size;
		int r = array_list_add(al, tok(x));
		log("add " + str(x));
		if (r != 0)
			ctx.fail("retval", "array_list_add returned " + str(r));
		m.push_back(x);
		sorted = false;
		if (al->size != cap)
			f_grew = true;
		check("add");
	}
	void insert(size_t idx, long x)
	{
		size_t cap = al->size;
		int r = array_list_insert_idx(al, idx, tok(x));
		log("insert_idx " + str(idx) + " <- " + str(x));
		if (unalloc(idx))
		{
			if (r != -1)
				ctx.fail("not-refused", "array_list_insert_idx(" + str(idx) + ") returned " + str(r));
			f_refused = true;
			check("insert_idx(refused)");
			return;
		}
		if (r != 0)
			ctx.fail("retval", "array_list_insert_idx(" + str(idx) + ") returned " + str(r));
		if (idx >= m.size())
		{
			if (idx > m.size())
				f_gap = true;
			m.resize(idx + 1, 0);
			m[idx] = x;
		}
		else
			m.insert(m.begin() + (long)idx, x);
		sorted = false;
		if (al->size != cap)
			f_grew = true;
		check("insert_idx");
	}
	void del(size_t idx, size_t count)
	{
		int r = array_list_del_idx(al, idx, count);
		log("del_idx " + str(idx) + " x" + str(count));
		bool ok = idx < m.size() && count <= m.size() - idx;
		if (!ok)
		{
			if (r != -1)
				ctx.fail("not-refused", "array_list_del_idx(" + str(idx) + ", " + str(count) + ") on length " + str(m.size()) + " returned " + str(r));
			f_refused = true;
			check("del_idx(refused)");
			return;
		}
		if (r != 0)
			ctx.fail("retval", "array_list_del_idx(" + str(idx) + ", " + str(count) + ") returned " + str(r));
		for (size_t i = idx; i < idx + count; i++)
			released(m[i]);
		m.erase(m.begin() + (long)idx, m.begin() + (long)(idx + count));
		if (count)
			f_del = true;
		check("del_idx");
	}
	void shrink(size_t extra)
	{
		int r = array_list_shrink(al, extra);
		log("shrink " + str(extra));
		if (extra >= SIZE_MAX / 16)
		{
			if (r != -1)
				ctx.fail("not-refused", "array_list_shrink(" + str(extra) + ") returned " + str(r));
			f_refused = true;
		}
		else if (r != 0)
			ctx.fail("retval", "array_list_shrink(" + str(extra) + ") returned " + str(r));
		else if (al->size < m.size() + extra)
			ctx.fail("shrink", "capacity " + str(al->size) + " after shrink(" + str(extra) + ") at length " + str(m.size()));
		check("shrink");
	}
	void sort()
	{
		array_list_sort(al, al_cmp);
		log("sort");
		std::sort(m.begin(), m.end());
		sorted = true;
		f_sorted = true;
		check("sort");
	}
	void search(long key)
	{
		const void *k = tok(key);
		void **hit = (void **)array_list_bsearch(&k, al, al_cmp);
		log("bsearch " + str(key));
		bool present = std::binary_search(m.begin(), m.end(), key);
		if (present != (hit != nullptr))
			ctx.fail("bsearch", "array_list_bsearch(" + str(key) + ") " + (hit ? "found" : "did not find") + " it, the model says " + (present ? "present" : "absent"));
		if (hit && (hit < al->array || hit >= al->array + al->length || *hit != k))
			ctx.fail("bsearch", "array_list_bsearch returned a pointer that is not a matching slot of the array");
	}
	void finish()
	{
		for (long id : m)
			released(id);
		array_list_free(al);
		al = nullptr;
		m.clear();
		check_freed_only();
	}
	void check_freed_only()
	{
		if (g_al_freed != want_freed)
			ctx.fail("free-callback", "after array_list_free the free function calls differ from the model (" + str(g_al_freed.size()) + " tokens freed, model " + str(want_freed.size()) + ")");
		for (auto &kv : g_al_freed)
			if (kv.second != 1)
				ctx.fail("free-callback", "token " + str(kv.first) + " freed " + str(kv.second) + " times");
	}
};
} // namespace

static void run_al(Choices &c, Ctx &ctx)
{
	bool dflt = c.coin(15);
	int cap0 = c.coin(30) ? 0 : (int)c.range(0, 40);
	AL a(ctx, cap0, dflt);
	size_t nops = 1 + c.len(40);
	auto idx_near = [&]() -> size_t {
		size_t len = a.m.size();
		if (len > 3000 || a.al->size > 6000)
			return c.pickn(len + 1); // bounded data volume: indices at the capacity would double it with every step
		switch (c.pick({4, 3, 3, 2, 1}))
		{
		case 0: return len ? c.pickn(len) : 0;
		case 1: return len;
		case 2: return len + (size_t)c.range(1, 6);
		case 3: return len ? len - 1 : 0;
		default: return a.al->size + (size_t)c.range(0, 3);
		}
	};
	for (size_t i = 0; i < nops; i++)
	{
		SpanGuard g(c);
		switch (c.pick({20, 18, 14, 14, 6, 5, 6, 5}))
		{
		case 0: a.add(a.fresh(c)); break;
		case 1: a.put(idx_near(), a.fresh(c)); break;
		case 2: a.insert(idx_near(), a.fresh(c)); break;
		case 3: {
			size_t len = a.m.size(), idx = idx_near(), count;
			switch (c.pick({4, 3, 2, 2, 1}))
			{
			case 0: count = 1; break;
			case 1: count = len > idx ? len - idx : 0; break;
			case 2: count = (len > idx ? len - idx : 0) + 1; break;
			case 3: count = (size_t)c.range(0, 5); break;
			default: count = SIZE_MAX - (size_t)c.range(0, 3); break;
			}
			if (c.coin(5))
				idx = huge_idx(c);
			a.del(idx, count);
			break;
		}
		case 4: a.shrink(c.coin(12) ? (c.coin(50) ? SIZE_MAX / 8 : c.coin(50) ? SIZE_MAX : SIZE_MAX / 2) - (size_t)c.range(0, 40) : (size_t)c.range(0, 5)); break;
		case 5: a.sort(); break;
		case 6:
			if (a.sorted)
				a.search((long)c.range(0, (uint64_t)a.next_id + 1));
			else
				a.sort();
			break;
		default: {
			size_t hi = huge_idx(c);
			if (c.coin(50))
				a.put(hi, a.next_id++);
			else
				a.insert(hi, a.next_id++);
			// the refused token stays with the caller: it is simply dropped here (never handed to the list)
			break;
		}
		}
	}
	a.finish();
	if (a.f_gap)
		ctx.label("al_null_gap");
	if (a.f_refused)
		ctx.label("al_refused");
	if (a.f_overwrite)
		ctx.label("al_overwrite");
	if (a.f_del)
		ctx.label("al_del_range");
	if (a.f_sorted)
		ctx.label("al_sort");
	if (a.f_grew)
		ctx.label("al_grew");
	if ((a.f_gap || a.f_overwrite || a.f_del) && a.f_grew)
		ctx.nontrivial(a.h);
	ctx.note(a.trace);
}

void run_case(Choices &c, Ctx &ctx)
{
	LeakScope leak;
	if (ctx.mode == "al")
	{
		run_al(c, ctx);
		leak.check(ctx);
		return;
	}
	if (ctx.mode == "small")
	{
		uint64_t idx = c.bits(8);
		A a(ctx, (int)(idx % 3));
		uint64_t x = idx;
		for (int step = 0; step < 6; step++)
		{
			int op = (int)(x % 6);
			x /= 6;
			size_t len = a.m.size();
			switch (op)
			{
			case 0: a.add(a.fresh(nullptr)); break;
			case 1: a.put(len + (step & 1 ? 2 : 0), a.fresh(nullptr)); break;
			case 2: a.put(len ? len / 2 : 0, a.fresh(nullptr)); break;
			case 3: a.insert(len ? (step % len) : 1, a.fresh(nullptr)); break;
			case 4: a.del(step % 2, 1 + (step & 1)); break;
			default: a.shrink(step & 1); break;
			}
		}
		a.finish();
		ctx.nontrivial(idx);
		ctx.note(a.trace);
		leak.check(ctx);
		return;
	}
	int cap0 = c.coin(30) ? 0 : (int)c.range(0, 40);
	A a(ctx, cap0);
	size_t nops = 1 + c.len(40);
	for (size_t i = 0; i < nops; i++)
	{
		SpanGuard g(c);
		switch (c.pick({20, 18, 14, 14, 6, 5, 6, 5}))
		{
		case 0: a.add(c.coin(10) ? El{nullptr, 0, 0} : c.coin(8) ? a.again(c) : a.fresh(&c)); break;
		case 1: {
			size_t at = pick_idx(c, a);
			if (c.coin(6) && at < a.m.size() && a.m[at].p)
			{
				// the very node that already sits in that slot, handed over with a reference of the caller's own
				El e = a.m[at];
				json_object_get(e.p);
				a.f_again = true;
				a.put(at, e);
			}
			else
				a.put(at, c.coin(10) ? El{nullptr, 0, 0} : c.coin(8) ? a.again(c) : a.fresh(&c));
			break;
		}
		case 2: a.insert(pick_idx(c, a), c.coin(10) ? El{nullptr, 0, 0} : c.coin(8) ? a.again(c) : a.fresh(&c)); break;
		case 3: {
			size_t len = a.m.size();
			size_t idx = pick_idx(c, a);
			size_t count;
			switch (c.pick({4, 3, 2, 2, 1}))
			{
			case 0: count = 1; break;
			case 1: count = len > idx ? len - idx : 0; break;
			case 2: count = (len > idx ? len - idx : 0) + 1; break;
			case 3: count = (size_t)c.range(0, 5); break;
			default: count = SIZE_MAX - (size_t)c.range(0, 3); break;
			}
			if (c.coin(5))
				idx = huge_idx(c);
			a.del(idx, count);
			break;
		}
		case 4:
			if (c.coin(15))
				a.shrink_refused((c.coin(50) ? SIZE_MAX : c.coin(50) ? SIZE_MAX / 2 : SIZE_MAX / 8) - (size_t)c.range(0, 40));
			else
				a.shrink((int)c.range(0, 5));
			break;
		case 5: a.sort(); break;
		case 6:
			if (a.sorted)
				a.bsearch((int64_t)c.range(0, 22));
			else
				a.sort();
			break;
		default: {
			size_t hi = huge_idx(c);
			if (c.coin(50))
				a.put(hi, a.fresh(&c));
			else
				a.insert(hi, a.fresh(&c));
			break;
		}
		}
	}
	a.finish();
	if (a.f_gap)
		ctx.label("null_gap");
	if (a.f_refused)
		ctx.label("refused");
	if (a.f_realloc)
		ctx.label("realloc");
	if (a.f_overwrite)
		ctx.label("overwrite");
	if (a.f_sort)
		ctx.label("sort");
	if (a.f_bsearch)
		ctx.label("bsearch");
	if (a.f_delrange)
		ctx.label("del_range");
	if (a.f_hugeidx)
		ctx.label("huge_index");
	if (a.f_again)
		ctx.label("same_node_in_several_slots");
	if (cap0 == 0)
		ctx.label("zero_capacity");
	if ((a.f_gap || a.f_overwrite || a.f_delrange) && a.f_realloc)
		ctx.nontrivial(a.h);
	ctx.note("initial capacity " + str(cap0) + "\n" + a.trace);
	leak.check(ctx);
}
#include "engine_main.hpp"
