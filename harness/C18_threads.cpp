// C18 – threaded build: shared reference counts are atomic; the hash seed is set once.
// Built against the library compiled with -DENABLE_THREADING=1 and the tree's own
// -DOVERRIDE_GET_RANDOM_SEED hook (see DESIGN 6/C18).  Workers are pinned to distinct CPUs and every
// run carries a canary race: without real concurrency a case is not counted.
#include "engine.hpp"
extern "C" {
#include "json.h"
#include "linkhash.h"
}
#include <pthread.h>
#include <sched.h>
#include <unistd.h>
#include <sys/wait.h>
#include <atomic>
#include <chrono>
using namespace vf;
template <class T> static std::string str(T v) { return std::to_string(v); }

const char *HARNESS_ID = "C18";
std::vector<ModeInfo> harness_modes()
{
	return {{"refcount", 0, "N pinned threads run generated balanced get/put programs on shared nodes (and work on disjoint trees); exact final counts, destroy-once; ThreadSanitizer reports when built with -fsanitize=thread"},
	        {"refcount_asan", 0, "the same programs in an ASan+UBSan threaded build (use after free / double free on a miscounted node)"},
	        {"refcount_tsan", 0, "the same programs in the -fsanitize=thread build: phase 1 canary race must be reported, phase 2 (get/put program) must be report-free"},
	        {"seed", 0, "fresh process per trial: N threads held inside the seed initialisation with different candidate seeds; all hashes of a key must agree"}};
}

// ------------------------------------------------------------------ TSan report hook
static std::atomic<int> g_phase{0};
static std::atomic<int> g_reports_canary{0}, g_reports_json{0};
extern "C" void __tsan_on_report(void *)
{
	if (g_phase.load() == 1)
		g_reports_canary++;
	else if (g_phase.load() == 2)
		g_reports_json++;
}
#if defined(__has_feature)
#if __has_feature(thread_sanitizer)
#define VERIF_TSAN 1
#endif
#endif

// ------------------------------------------------------------------ seed hook (OVERRIDE_GET_RANDOM_SEED)
namespace {
struct SeedTrial {
	bool active = false;
	int nthreads = 0;
	int sentinel_retries = 0;
	std::atomic<int> inside{0};
	std::atomic<int> handed{0};
} g_seed;
static thread_local int t_index = -1;
static thread_local int t_retries_left = 0;
}
extern "C" int verif_seed_hook(void)
{
	if (!g_seed.active)
		return 4242;
	if (t_retries_left > 0)
	{
		t_retries_left--;
		return -1; // the "not a seed" sentinel: the library must ask again
	}
	// hold every thread inside the initialisation branch until all have arrived (or 200 ms passed)
	g_seed.inside++;
	auto t0 = std::chrono::steady_clock::now();
	while (g_seed.inside.load() < g_seed.nthreads &&
	       std::chrono::duration<double>(std::chrono::steady_clock::now() - t0).count() < 0.2)
		;
	g_seed.handed++;
	return 1000 + 7919 * (t_index + 1); // a different candidate per thread
}

namespace {
static int ncpus()
{
	static int n = 0;
	if (!n)
	{
		cpu_set_t s;
		CPU_ZERO(&s);
		if (sched_getaffinity(0, sizeof s, &s) == 0)
			n = CPU_COUNT(&s);
		if (n < 1)
			n = 1;
	}
	return n;
}
static std::vector<int> cpu_list()
{
	std::vector<int> v;
	cpu_set_t s;
	CPU_ZERO(&s);
	sched_getaffinity(0, sizeof s, &s);
	for (int i = 0; i < CPU_SETSIZE; i++)
		if (CPU_ISSET(i, &s))
			v.push_back(i);
	return v;
}
static std::vector<int> g_cpus;
static void pin(int slot)
{
	if (g_cpus.empty())
		return;
	cpu_set_t s;
	CPU_ZERO(&s);
	CPU_SET(g_cpus[(size_t)slot % g_cpus.size()], &s);
	pthread_setaffinity_np(pthread_self(), sizeof s, &s);
}

struct Barrier {
	std::atomic<int> count{0};
	int n = 0;
	void wait()
	{
		count++;
		while (count.load() < n)
			;
	}
};

// ---------------------------------------------------------------- refcount programs
struct Shared {
	json_object *node;
	std::atomic<int> destroyed{0};
	std::atomic<int> pinned{0}; // the main thread holds references throughout: destruction now is a violation
};
static void shared_del(json_object *, void *ud)
{
	Shared *s = (Shared *)ud;
	s->destroyed++;
	if (s->pinned.load())
	{
		// stop at once, while the case being run is still the one that caused it (in the build without a sanitizer a
		// freed node would only show up later, as heap corruption in some other case)
		static const char msg[] = "PROPERTY-FAIL harness=C18 tag=destroyed-early a shared node was destroyed while the main thread still held more than 2^31 references to it\n";
		ssize_t w = write(2, msg, sizeof msg - 1);
		(void)w;
		abort();
	}
}

struct Prog {
	bool cold_start = false; // the workers acquire their own reference concurrently from a count of exactly 1
	int nthreads;
	int nnodes;
	long rounds;            // per thread
	std::vector<std::vector<uint8_t>> script; // per thread: small repeating op pattern
	bool disjoint_work;
	bool high_count = false;     // the last shared node carries 2^31 + 1000 references of the main thread throughout
	bool thread_formats = false; // every thread installs its own JSON_C_OPTION_THREAD double format
	bool via_container = false; // extra references are held by (and released through) thread-private arrays / objects
};
struct ThreadArg {
	int idx;
	const Prog *p;
	std::vector<Shared *> *nodes;
	Barrier *start;
	Barrier *start2 = nullptr;
	long put_freed = 0;      // how often put returned 1 in this thread
	long mismatches = 0;     // disjoint-tree results that differ
	volatile long *canary;
	int *tsan_canary;
	int phase;
};
static void *canary_thread(void *a)
{
	ThreadArg *t = (ThreadArg *)a;
	pin(t->idx);
	t->start->wait();
	for (long i = 0; i < 200000; i++)
	{
		(*t->canary)++;      // deliberately non-atomic (volatile): lost updates prove real parallelism
		(*t->tsan_canary)++; // deliberately racy plain int: a TSan report proves the detector sees these threads
	}
	return nullptr;
}
static void *worker(void *a)
{
	ThreadArg *t = (ThreadArg *)a;
	const Prog &p = *t->p;
	pin(t->idx);
	const std::vector<uint8_t> &sc = p.script[(size_t)t->idx];
	std::vector<Shared *> &nodes = *t->nodes;
	// per-node count of extra references this thread currently holds (besides the pre-acquired one)
	std::vector<int> held(nodes.size(), 0);
	char expect[64];
	// a per-thread serialisation option: threads with different settings must not see each other's
	const bool own_fmt = p.disjoint_work && p.thread_formats;
	const char *fmt = (t->idx & 1) ? "%.0f" : "%.3g";
	const char *expect5 = (t->idx & 1) ? "5" : "5.0";
	// (with an own format the private tree carries no double: its text would depend on the format)
	snprintf(expect, sizeof expect, own_fmt ? "{\"t\":%d,\"a\":[1,25,\"x\"]}" : "{\"t\":%d,\"a\":[1,2.5,\"x\"]}", t->idx);
	t->start->wait();
	if (own_fmt)
		json_c_set_serialization_double_format(fmt, JSON_C_OPTION_THREAD);
	if (p.cold_start)
	{
		// the main thread keeps the only reference alive; every worker takes its own at the same instant
		for (size_t n = 0; n < nodes.size(); n++)
			json_object_get(nodes[n]->node);
		t->start2->wait();
	}
	// thread-private containers that own references to the shared nodes: releasing goes through the containers' own
	// teardown paths (element delete, overwrite, container destruction), not through a json_object_put call made here
	json_object *parr = p.via_container ? json_object_new_array() : nullptr;
	json_object *pobj = p.via_container ? json_object_new_object() : nullptr;
	for (long r = 0; r < p.rounds; r++)
	{
		uint8_t op = sc[(size_t)r % sc.size()];
		size_t n = (op >> 2) % nodes.size();
		if (p.via_container && (op & 0x40))
		{
			size_t len = json_object_array_length(parr);
			switch (op & 3)
			{
			case 0:
				if (len < 64)
				{
					json_object_array_add(parr, json_object_get(nodes[n]->node));
					break;
				}
				// fall through: full, release one
			case 1:
				if (len > 0)
					json_object_array_del_idx(parr, len - 1, 1);
				break;
			case 2:
				if (len > 0) // overwrite an occupied slot: the old element is released by the array
					json_object_array_put_idx(parr, (size_t)r % len, json_object_get(nodes[n]->node));
				break;
			default:
				// object member replace / delete
				if (r & 1)
					json_object_object_add(pobj, "k", json_object_get(nodes[n]->node));
				else
					json_object_object_del(pobj, "k");
				break;
			}
			if ((r & 1023) == 1023)
			{
				// whole-container teardown with live elements
				json_object_put(parr);
				parr = json_object_new_array();
			}
			continue;
		}
		switch (op & 3)
		{
		case 0:
			json_object_get(nodes[n]->node);
			held[n]++;
			break;
		case 1:
			if (held[n] > 0)
			{
				held[n]--;
				if (json_object_put(nodes[n]->node) == 1)
					t->put_freed++;
			}
			else
			{
				json_object_get(nodes[n]->node);
				held[n]++;
			}
			break;
		case 2: // read while holding a reference
			if (json_object_get_type(nodes[n]->node) != json_type_object)
				t->mismatches++;
			break;
		default:
			if (p.disjoint_work && (r & 63) == 0)
			{
				// a private tree: build, serialise, parse back, destroy
				json_object *o = json_object_new_object();
				json_object_object_add(o, "t", json_object_new_int(t->idx));
				json_object *arr = json_object_new_array();
				json_object_array_add(arr, json_object_new_int(1));
				json_object_array_add(arr, own_fmt ? json_object_new_int(25) : json_object_new_double(2.5));
				json_object_array_add(arr, json_object_new_string("x"));
				json_object_object_add(o, "a", arr);
				const char *s = json_object_to_json_string_ext(o, JSON_C_TO_STRING_PLAIN);
				if (!s || strcmp(s, expect) != 0)
					t->mismatches++;
				json_object *back = json_tokener_parse(expect);
				if (!back || !json_object_equal(back, o))
					t->mismatches++;
				json_object_put(back);
				json_object_put(o);
				if (own_fmt)
				{
					json_object *d = json_object_new_double(5.0);
					const char *ds = json_object_to_json_string(d);
					if (!ds || strcmp(ds, expect5) != 0)
						t->mismatches++;
					json_object_put(d);
				}
			}
			break;
		}
	}
	if (own_fmt)
		json_c_set_serialization_double_format(nullptr, JSON_C_OPTION_THREAD);
	// release everything this thread holds, including the reference pre-acquired for it
	if (p.via_container)
	{
		json_object_put(parr);
		json_object_put(pobj);
	}
	for (size_t n = 0; n < nodes.size(); n++)
	{
		for (int k = 0; k < held[n]; k++)
			if (json_object_put(nodes[n]->node) == 1)
				t->put_freed++;
		if (json_object_put(nodes[n]->node) == 1)
			t->put_freed++;
	}
	return nullptr;
}

static bool run_canary(int nthreads, bool &lost_updates, int &tsan_reports)
{
	volatile long canary = 0;
	int tsan_canary = 0;
	Barrier b;
	b.n = nthreads;
	std::vector<ThreadArg> args((size_t)nthreads);
	std::vector<pthread_t> th((size_t)nthreads);
	g_reports_canary = 0;
	g_phase = 1;
	for (int i = 0; i < nthreads; i++)
	{
		args[i].idx = i;
		args[i].start = &b;
		args[i].canary = &canary;
		args[i].tsan_canary = &tsan_canary;
		pthread_create(&th[i], nullptr, canary_thread, &args[i]);
	}
	for (int i = 0; i < nthreads; i++)
		pthread_join(th[i], nullptr);
	g_phase = 0;
	lost_updates = canary < 200000L * nthreads;
	tsan_reports = g_reports_canary.load();
	(void)tsan_canary;
	return true;
}
} // namespace

void harness_init(const std::string &mode)
{
	g_cpus = cpu_list();
	if (mode == "seed")
		return; // the trial processes must inherit an uninitialised seed
	// fix the seed once, single-threaded, so the refcount programs are not about seed publication
	lh_table *t = lh_kchar_table_new(4, nullptr);
	(void)lh_get_hash(t, "warm-up");
	lh_table_free(t);
}

static void run_refcount(Choices &c, Ctx &ctx)
{
	Prog p;
	int maxthreads = std::min(16, ncpus());
	if (maxthreads < 2)
	{
		ctx.label("not_explored_single_cpu");
		return;
	}
	p.nthreads = (int)c.range(2, (uint64_t)maxthreads);
	p.nnodes = (int)c.range(1, 4);
#ifdef VERIF_TSAN
	p.rounds = (long)c.range(10000, 60000);
#else
	p.rounds = (long)c.range(100000, 600000);
#endif
	p.disjoint_work = c.coin(50);
	p.cold_start = c.coin(40);
	p.via_container = c.coin(40);
	p.thread_formats = c.coin(50);
#if !defined(VERIF_TSAN) && !defined(__SANITIZE_ADDRESS__)
#if defined(__has_feature)
#if !__has_feature(address_sanitizer)
	p.high_count = c.coin(15);
#endif
#else
	p.high_count = c.coin(15);
#endif
#endif
	for (int i = 0; i < p.nthreads; i++)
	{
		std::vector<uint8_t> sc;
		size_t n = 4 + c.pickn(28);
		for (size_t k = 0; k < n; k++)
			sc.push_back((uint8_t)c.range(0, 255));
		p.script.push_back(sc);
	}
	// canary: is there real concurrency (and, under TSan, does the detector see it)?
	bool real = false;
	int attempts = 0;
	for (; attempts < 3 && !real; attempts++)
	{
		bool lost = false;
		int reps = 0;
		run_canary(p.nthreads, lost, reps);
#ifdef VERIF_TSAN
		real = reps > 0;
#else
		real = lost;
#endif
		if (!real)
			std::rotate(g_cpus.begin(), g_cpus.begin() + 1, g_cpus.end());
	}
	if (!real)
	{
		ctx.label("not_explored_no_real_concurrency");
		return;
	}
	ctx.label("canary_ok");
	// shared nodes: one reference for the main thread plus one pre-acquired per worker
	std::vector<Shared *> nodes;
	for (int i = 0; i < p.nnodes; i++)
	{
		Shared *s = new Shared();
		s->node = json_object_new_object();
		json_object_object_add(s->node, "n", json_object_new_int(i));
		json_object_set_userdata(s->node, s, shared_del);
		if (!p.cold_start)
			for (int t = 0; t < p.nthreads; t++)
				json_object_get(s->node);
		nodes.push_back(s);
	}
	if (p.high_count)
	{
		// a 32-bit counter legitimately holds more than 2^31 references: the sign bit must not mean anything
		json_object *bulk = nodes.back()->node;
		for (uint32_t i = 0; i < (1u << 31) + 1000; i++)
			json_object_get(bulk);
		nodes.back()->pinned = 1;
	}
	Barrier b, b2;
	b.n = p.nthreads + 1;
	b2.n = p.nthreads + 1;
	std::vector<ThreadArg> args((size_t)p.nthreads);
	std::vector<pthread_t> th((size_t)p.nthreads);
	g_reports_json = 0;
	g_phase = 2;
	for (int i = 0; i < p.nthreads; i++)
	{
		args[i].idx = i;
		args[i].p = &p;
		args[i].nodes = &nodes;
		args[i].start = &b;
		args[i].start2 = &b2;
		pthread_create(&th[i], nullptr, worker, &args[i]);
	}
	// the main thread releases its own references concurrently with the workers
	b.wait();
	if (p.cold_start)
		b2.wait(); // ... but only after every worker holds its own reference
	long main_freed = 0;
	bool main_last = c.coin(50);
	if (!main_last)
		for (auto s : nodes)
			if (!(p.high_count && s == nodes.back()) && json_object_put(s->node) == 1)
				main_freed++;
	for (int i = 0; i < p.nthreads; i++)
		pthread_join(th[i], nullptr);
	int early = 0;
	if (main_last)
	{
		// nothing may have been destroyed while the main thread still holds its reference
		for (auto s : nodes)
			early += s->destroyed.load();
		for (auto s : nodes)
			if (!(p.high_count && s == nodes.back()) && json_object_put(s->node) == 1)
				main_freed++;
	}
	g_phase = 0;
	Shared *bulk = nullptr;
	if (p.high_count)
	{
		// the main thread still holds its 2^31 + 1001 references: the node must be alive. It is then abandoned (releasing
		// two thousand million references one by one would only cost time; other programs check the release side).
		bulk = nodes.back();
		nodes.pop_back();
		if (bulk->destroyed.load() != 0)
			ctx.fail("destroyed-early", "a shared node holding more than 2^31 references was destroyed while they were still outstanding");
		ctx.label("more_than_2e31_references");
	}
	long freed = main_freed, mism = 0;
	for (auto &a : args)
	{
		freed += a.put_freed;
		mism += a.mismatches;
	}
	std::string desc = str(p.nthreads) + " threads x " + str(p.rounds) + " ops on " + str(p.nnodes) + " shared node(s)" + (p.disjoint_work ? " + disjoint-tree work" : "") +
	                   (main_last ? ", main thread releases last" : ", main thread releases concurrently") + (p.cold_start ? ", cold start from a count of 1" : "") + (p.via_container ? ", references also held and released through private containers" : "");
	ctx.note(desc);
	int destroyed_total = 0;
	for (auto s : nodes)
		destroyed_total += s->destroyed.load();
	if (early)
		ctx.fail("destroyed-early", "a shared node was destroyed while the main thread still held a reference (" + desc + ")");
	for (size_t i = 0; i < nodes.size(); i++)
		if (nodes[i]->destroyed.load() != 1)
			ctx.fail("destroy-count", "shared node " + str(i) + " was destroyed " + str(nodes[i]->destroyed.load()) + " times after all references were released (" + desc + ")");
	// (a last reference dropped inside a container teardown is not reported to any caller)
	if (p.via_container ? freed > (long)nodes.size() : freed != (long)nodes.size())
		ctx.fail("put-freed-count", "json_object_put reported 'freed' " + str(freed) + " times for " + str(nodes.size()) + " node(s) (" + desc + ")");
	if (mism)
		ctx.fail("disjoint-interference", str(mism) + " results of private-tree work or reads through held references were wrong (" + desc + ")");
	if (g_reports_json.load() > 0)
		ctx.fail("data-race", "ThreadSanitizer reported " + str(g_reports_json.load()) + " data race(s) during the get/put program (" + desc + "); see the sanitizer output");
	(void)destroyed_total;
	for (auto s : nodes)
		delete s;
	ctx.label(p.disjoint_work ? "with_disjoint_work" : "refcount_only");
	if (p.cold_start)
		ctx.label("cold_start_from_count_1");
	if (p.via_container)
		ctx.label("released_through_private_containers");
	if (p.disjoint_work && p.thread_formats)
		ctx.label("per_thread_double_formats");
	uint64_t h = hash_u64((uint64_t)p.nthreads * 1000003 + (uint64_t)p.rounds);
	for (auto &sc : p.script)
		h = fnv1a(sc.data(), sc.size(), h);
	ctx.nontrivial(h);
}

// ---------------------------------------------------------------- seed publication trials
namespace {
struct SeedArg {
	int idx;
	int retries;
	Barrier *b;
	const char *key;
	unsigned long early = 0, late = 0;
};
static void *seed_thread(void *a)
{
	SeedArg *s = (SeedArg *)a;
	t_index = s->idx;
	t_retries_left = s->retries;
	pin(s->idx);
	lh_table *t = lh_kchar_table_new(4, nullptr);
	s->b->wait();
	s->early = lh_get_hash(t, s->key); // first use of the key hash in this process, in all threads at once
	// also through the public object API
	json_object *o = json_object_new_object();
	json_object_object_add(o, s->key, json_object_new_int(s->idx));
	json_object *v = nullptr;
	bool found = json_object_object_get_ex(o, s->key, &v);
	s->late = lh_get_hash(t, s->key);
	if (!found)
		s->late ^= 0xdead;
	json_object_put(o);
	lh_table_free(t);
	return nullptr;
}
}
static void run_seed(Choices &c, Ctx &ctx)
{
	int maxthreads = std::min(16, ncpus());
	int n = (int)c.range(2, (uint64_t)std::max(2, maxthreads));
	static const char *keys[] = {"key", "", "a somewhat longer member name", "k1", "\xc3\xa4"};
	const char *key = keys[c.pickn(5)];
	int retries = c.coin(30) ? (int)c.range(1, 6) : 0;
	bool switch_hash = c.coin(50);
	int pfd[2];
	if (pipe(pfd) != 0)
		return;
	pid_t pid = fork();
	if (pid == 0)
	{
		close(pfd[0]);
		g_seed.active = true;
		g_seed.nthreads = n;
		Barrier b;
		b.n = n;
		std::vector<SeedArg> args((size_t)n);
		std::vector<pthread_t> th((size_t)n);
		for (int i = 0; i < n; i++)
		{
			args[i].idx = i;
			args[i].retries = retries;
			args[i].b = &b;
			args[i].key = key;
			pthread_create(&th[i], nullptr, seed_thread, &args[i]);
		}
		for (int i = 0; i < n; i++)
			pthread_join(th[i], nullptr);
		// later probes from the main thread
		lh_table *t = lh_kchar_table_new(4, nullptr);
		unsigned long final = lh_get_hash(t, key);
		int bad = 0;
		if (switch_hash)
		{
			// "at every later time": selecting the other string hash and coming back must not draw a new seed;
			// an object created before still finds its members afterwards
			json_object *o = json_object_new_object();
			json_object_object_add(o, key, json_object_new_int(1));
			json_global_set_string_hash(JSON_C_STR_HASH_PERLLIKE);
			json_object *o2 = json_object_new_object();
			json_object_object_add(o2, key, json_object_new_int(2));
			json_object *v = nullptr;
			if (!json_object_object_get_ex(o, key, &v) || !json_object_object_get_ex(o2, key, &v))
				bad++;
			json_global_set_string_hash(JSON_C_STR_HASH_DFLT);
			lh_table *t2 = lh_kchar_table_new(4, nullptr);
			if (lh_get_hash(t2, key) != final || lh_get_hash(t, key) != final)
				bad++;
			if (!json_object_object_get_ex(o, key, &v) || !json_object_object_get_ex(o2, key, &v))
				bad++;
			lh_table_free(t2);
			json_object_put(o);
			json_object_put(o2);
		}
		lh_table_free(t);
		for (auto &a : args)
			if (a.early != final || a.late != final)
				bad++;
		unsigned char rep[4] = {(unsigned char)bad, (unsigned char)std::min(255, g_seed.handed.load()), 0, 0};
		ssize_t wr = write(pfd[1], rep, 4);
		(void)wr;
		_exit(bad ? 1 : 0);
	}
	close(pfd[1]);
	unsigned char rep[4] = {0, 0, 0, 0};
	ssize_t got = read(pfd[0], rep, 4);
	close(pfd[0]);
	int st = 0;
	waitpid(pid, &st, 0);
	std::string desc = str(n) + " threads, key " + quote(key) + ", " + str(retries) + " sentinel retries" + (switch_hash ? ", then the string hash selection switched and switched back" : "");
	ctx.note(desc + ": " + str((int)rep[0]) + " thread(s) disagree, " + str((int)rep[1]) + " candidate seeds handed out");
	if (got != 4 || !WIFEXITED(st))
		ctx.fail("seed-trial-crashed", "the trial process died (status " + str(st) + "): " + desc);
	if (rep[1] < 2)
	{
		// fewer than two threads reached the initialisation branch: the race did not take the expected form - but
		// threads that disagree about the hash of the key are a violation whatever form it took
		if (rep[0] != 0 || WEXITSTATUS(st) != 0)
			ctx.fail("seed-not-unique", str((int)rep[0]) + " hash values / lookups (of " + str(n) + " threads, plus the later probes) differ from the process's final hash of the key, although only " +
			                                str((int)rep[1]) + " thread(s) asked the entropy source: " + desc);
		ctx.label("not_explored_no_seed_race");
		return;
	}
	ctx.label(rep[1] >= n ? "seed_race_all_threads" : "seed_race_some_threads");
	if (switch_hash)
		ctx.label("hash_selection_switched_and_back");
	if (rep[0] != 0 || WEXITSTATUS(st) != 0)
		ctx.fail("seed-not-unique", str((int)rep[0]) + " hash values / lookups (of " + str(n) + " threads, plus the later probes) differ from the process's final hash of the key: " + desc);
	ctx.nontrivial(hash_str(key, hash_u64((uint64_t)n * 16 + retries)));
}

void run_case(Choices &c, Ctx &ctx)
{
	if (ctx.mode == "seed")
		run_seed(c, ctx);
	else
		run_refcount(c, ctx);
}
#define VERIF_HAVE_INIT 1
#include "engine_main.hpp"
