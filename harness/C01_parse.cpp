// C01 – parsing a valid JSON text yields exactly the value the text denotes (default and strict mode).
#include "common.hpp"
#include "refjson.hpp"
#include "textgen.hpp"
#include "parseutil.hpp"
using namespace vf;

const char *HARNESS_ID = "C01";
std::vector<ModeInfo> harness_modes()
{
	return {{"grammar", 0, "grammar-generated valid texts vs the reference parser + exact rounding judge"},
	        {"filter", 0, "arbitrary bytes; whatever the reference parser accepts json-c must accept with the same value (libFuzzer)"},
	        {"u16", 65536, "every \\uXXXX unit alone, as string value and (except U+0000) as member name"},
	        {"pairs", 1048576, "every high x low surrogate pairing"},
	        {"scalars", 0x110000, "every Unicode scalar value raw and \\u-escaped"},
	        {"ints", 460, "integers +-(2^k+d), k in {31,32,53,63,64}, |d|<=3 and 1..40-digit 9..9 / 10..0 strings"},
	        {"dblgrid", 4194304, "for 2048 binades x 64 mantissa patterns: exact text, midpoint text, midpoint +-1 digit"}};
}

static void check_text(Ctx &ctx, const std::string &text, const RefResult &ref, bool nt_hint, uint64_t nt_hash)
{
	if (ref.has_nul_key)
	{
		ctx.label("nul_in_member_name");
		if (ctx.kf("nul-in-member-name"))
		{
			ctx.excluded("nul-in-member-name");
			return;
		}
	}
	for (int strict = 0; strict < 2; strict++)
	{
		POut r = parse_fresh(text, strict ? JSON_TOKENER_STRICT : 0, JSON_TOKENER_DEFAULT_DEPTH, true);
		const char *mname = strict ? "strict" : "default";
		if (ref.has_huge_int && strict)
		{
			if (r.err == json_tokener_success || r.err == json_tokener_continue)
				ctx.fail("huge-int-strict", std::string("integer beyond 64 bits accepted in strict mode: ") + r.show_() +
				                                " text=" + quote(text));
			continue;
		}
		if (r.err != json_tokener_success)
			ctx.fail("rejected", std::string(mname) + " mode rejected a valid text: " + r.show_() + " text=" + quote(text));
		if (r.end < ref.end || r.end > text.size() + 1)
			ctx.fail("parse-end", std::string(mname) + ": parse end " + str(r.end) + " not within [" + str(ref.end) + "," +
			                          str(text.size() + 1) + "] text=" + quote(text));
		std::string why;
		if ((r.has ? 1 : 0) != (ref.v.k != Val::Null ? 1 : 0) || !same_val(ref.v, r.v, why, DBL_JUDGE))
			ctx.fail("value", std::string(mname) + " mode value differs: " + why + " text=" + quote(text));
	}
	// convenience entry point on the NUL-terminated text
	{
		json_object *o = json_tokener_parse(text.c_str());
		Val got = dump(o);
		json_object_put(o);
		std::string why;
		if (!same_val(ref.v, got, why, DBL_JUDGE))
			ctx.fail("value", "json_tokener_parse value differs: " + why + " text=" + quote(text));
	}
	if (nt_hint)
		ctx.nontrivial(nt_hash);
}

static void enum_case(Ctx &ctx, const std::string &text, uint64_t idx, bool nt = true)
{
	RefResult ref = ref_parse(text);
	if (!ref.ok)
		ctx.fail("HARNESS", "enumeration produced a text the reference rejects: " + quote(text) + " " + ref.err);
	ctx.note("text=" + quote(text) + " expect " + show(ref.v, 200));
	check_text(ctx, text, ref, nt, idx);
}

static std::string hex4s(uint32_t u, bool upper)
{
	char b[8];
	snprintf(b, sizeof b, upper ? "\\u%04X" : "\\u%04x", u);
	return b;
}

void run_case(Choices &c, Ctx &ctx)
{
	LeakScope leak;
	if (ctx.mode == "u16")
	{
		uint64_t idx = c.bits(8);
		uint32_t u = (uint32_t)idx;
		enum_case(ctx, "\"" + hex4s(u, u & 1) + "\"", idx);
		enum_case(ctx, "[\"x" + hex4s(u, !(u & 1)) + "y\"]", idx);
		if (u != 0 || !ctx.kf("nul-in-member-name"))
			enum_case(ctx, "{\"k" + hex4s(u, false) + "\":1}", idx);
		leak.check(ctx);
		return;
	}
	if (ctx.mode == "pairs")
	{
		uint64_t idx = c.bits(8);
		uint32_t hi = 0xd800 + (uint32_t)(idx >> 10), lo = 0xdc00 + (uint32_t)(idx & 1023);
		enum_case(ctx, "\"" + hex4s(hi, idx & 1) + hex4s(lo, idx & 2) + "\"", idx);
		leak.check(ctx);
		return;
	}
	if (ctx.mode == "scalars")
	{
		uint64_t idx = c.bits(8);
		uint32_t cp = (uint32_t)idx;
		if (cp >= 0xd800 && cp <= 0xdfff)
			return;
		std::string raw;
		if (cp >= 0x20 && cp != '"' && cp != '\\')
			utf8_append(raw, cp);
		else
			raw = hex4s(cp, false);
		std::string esc;
		if (cp < 0x10000)
			esc = hex4s(cp, true);
		else
			esc = hex4s(0xd800 + ((cp - 0x10000) >> 10), false) + hex4s(0xdc00 + ((cp - 0x10000) & 1023), true);
		enum_case(ctx, "[\"" + raw + "\",\"a" + esc + "\"]", idx);
		leak.check(ctx);
		return;
	}
	if (ctx.mode == "ints")
	{
		uint64_t idx = c.bits(8);
		std::string t;
		if (idx < 70)
		{
			static const int ks[] = {31, 32, 53, 63, 64};
			int k = ks[idx / 14], d = (int)(idx % 14 / 2) - 3;
			bool neg = idx & 1;
			unsigned __int128 v = ((unsigned __int128)1 << k);
			if (d < 0)
				v -= (unsigned)(-d);
			else
				v += (unsigned)d;
			t = (neg ? "-" : "") + TextGen::u128_dec(v);
		}
		else
		{
			uint64_t j = idx - 70; // 0..389
			size_t nd = 1 + (j / 6) % 40;
			int kind = (int)(j % 6);
			std::string dg = (kind % 3 == 0) ? std::string(nd, '9') : (kind % 3 == 1) ? "1" + std::string(nd - 1, '0') : "1" + std::string(nd - 1, '0');
			if (kind % 3 == 2 && nd > 1)
				dg[nd - 1] = '1';
			t = (kind >= 3 ? "-" : "") + dg;
			if (j >= 240)
				t = "[" + t + "]";
		}
		enum_case(ctx, t, idx);
		enum_case(ctx, " {\"a\":" + t + " } ", idx);
		leak.check(ctx);
		return;
	}
	if (ctx.mode == "dblgrid")
	{
		uint64_t idx = c.bits(8);
		uint64_t kind = idx & 3, mi = (idx >> 2) & 63, be = (idx >> 8) & 2047, neg = (idx >> 19) & 1, form = (idx >> 20) & 3;
		if (be == 2047)
			return;
		static const uint64_t mant[8] = {0, 1, 2, 0xfffffffffffffULL, 0xffffffffffffeULL, 0x8000000000000ULL,
		                                 0x7ffffffffffffULL, 0x8000000000001ULL};
		uint64_t m = mi < 8 ? mant[mi] : (Rng::splitmix(idx) & ((1ULL << 52) - 1));
		uint64_t bits = (be << 52) | m;
		std::string t = kind == 0 ? exact_text(bits) : midpoint_text(bits);
		bool frac = t.find('.') != std::string::npos;
		if (kind == 2)
			t += frac ? "1" : ".1"; // just above the midpoint
		if (kind == 3)
		{
			// just below the midpoint (a fractional midpoint's last digit is 5)
			if (frac && t[t.size() - 1] > '0')
			{
				t[t.size() - 1]--;
				t += "9";
			}
			else
				t = exact_text(bits);
		}
		if (t.find('.') == std::string::npos)
			t += form & 1 ? ".0" : "e0";
		if (neg)
			t = "-" + t;
		if (form & 2)
			t = "[" + t + "]";
		enum_case(ctx, t, idx);
		leak.check(ctx);
		return;
	}
	if (ctx.mode == "filter")
	{
		std::string text;
		while (c.pos < c.bp->size())
			text += (char)c.byte();
		if (text.find('\0') != std::string::npos)
			return;
		RefResult ref = ref_parse(text);
		if (!ref.ok)
		{
			ctx.label("ref_rejects");
			return;
		}
		if (ref.max_depth > 31)
			return;
		ctx.label("ref_accepts");
		ctx.note("text=" + quote(text));
		check_text(ctx, text, ref, text.size() > 2, hash_str(text));
		leak.check(ctx);
		return;
	}
	// grammar mode
	TextGenOpts o;
	int spine = c.coin(8) ? (int)c.range(2, 31) : 0; // deliberately deep documents
	o.max_depth = spine ? 31 : 6;
	o.max_nodes = 10 + c.len(80);
	TextGen g(c, o);
	std::string text = g.document(spine);
	RefResult ref = ref_parse(text);
	if (!ref.ok)
		ctx.fail("HARNESS", "generator produced a text the reference parser rejects (" + ref.err + " at " + str(ref.err_pos) +
		                        "): " + quote(text));
	if (ref.max_depth > 31)
		return;
	if (g.f_escape)
		ctx.label("escape");
	if (g.f_nonascii)
		ctx.label("nonascii");
	if (g.f_surrogate)
		ctx.label("surrogate");
	if (g.f_frac)
		ctx.label("non_integer");
	if (g.f_boundary)
		ctx.label("boundary_int");
	if (g.f_midpoint)
		ctx.label("midpoint_number");
	if (g.f_longnum)
		ctx.label("long_mantissa");
	if (g.f_wide)
		ctx.label("wide_container");
	if (g.f_longstr)
		ctx.label("long_string");
	if (g.f_dup && ref.has_dup_key)
		ctx.label("dup_key");
	if (ref.has_huge_int)
		ctx.label("huge_int");
	if (ref.max_depth >= 2)
		ctx.label("nesting_ge2");
	if (ref.max_depth >= 20)
		ctx.label("nesting_ge20");
	bool nt = g.f_escape || g.f_nonascii || g.f_frac || g.f_boundary || ref.max_depth >= 2 || ref.has_dup_key;
	ctx.note("text=" + quote(text, 1200));
	ctx.note("denotes " + show(ref.v, 500));
	check_text(ctx, text, ref, nt, hash_str(text));
	if (c.coin(6) && !(ref.has_nul_key && ctx.kf("nul-in-member-name")) && parse_fresh(text, 0, JSON_TOKENER_DEFAULT_DEPTH, false).err == json_tokener_success)
	{
		// the same valid text through the descriptor / file entry points (real kernel objects: memory file, packet pipe,
		// the pipe opened by path). Texts that an exact-length call leaves "incomplete" (a bare number) are skipped.
		int how = (int)c.pickn(4);
		size_t piece = 1 + c.pickn(c.coin(50) ? 8 : 3000);
		json_object *o = nullptr;
		if (parse_via_fd(text, how, piece, &o))
		{
			static const char *hn[] = {"json_object_from_fd on a memory file", "json_object_from_fd on a pipe delivering short reads",
			                           "json_object_from_file on a pipe (size 0)", "json_object_from_file on a memory file"};
			Val got = dump(o);
			bool has = o != nullptr;
			json_object_put(o);
			std::string why;
			if (has != (ref.v.k != Val::Null) || !same_val(ref.v, got, why, DBL_JUDGE))
				ctx.fail("fd-entry", std::string(hn[how]) + (has ? " returns another value: " + why : std::string(" rejects a valid text: ") + (json_util_get_last_err() ? json_util_get_last_err() : "")) +
				                         " (pieces of " + str(piece) + " bytes) text=" + quote(text, 300));
			ctx.label("via_descriptor_entry_points");
		}
	}
	leak.check(ctx);
}
#include "engine_main.hpp"
