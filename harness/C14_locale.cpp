// C14 – parse/serialize are locale-independent and leave the caller's locale untouched.
// A synthetic comma-decimal locale (xx_XX, built offline by locale/mklocale.py, selected through LOCPATH)
// is installed globally and/or per thread; results must be byte-identical to the C locale.
#include "common.hpp"
#include "refjson.hpp"
#include "treegen.hpp"
#include "textgen.hpp"
#include "parseutil.hpp"
#include <locale.h>
using namespace vf;

const char *HARNESS_ID = "C14";
std::vector<ModeInfo> harness_modes()
{
	return {{"gen", 0, "generated texts/trees with non-integers x 4 locale regimes x one-shot/chunked; every parser outcome class; locale state checked around every call"},
	        {"classes", 24 * 4 * 3, "every outcome class (success, continue, each error code incl. depth/size/utf8/memory) x 4 regimes x {one-shot, split, byte-wise}"}};
}

namespace {
static locale_t g_comma = (locale_t)0, g_c = (locale_t)0;
static bool g_have_comma = false;

static void set_regime(int r)
{
	// 0: C global; 1: comma global; 2: C global + comma thread; 3: comma global + C thread
	setlocale(LC_ALL, (r == 1 || r == 3) ? "xx_XX" : "C");
	if (r == 2)
		uselocale(g_comma);
	else if (r == 3)
		uselocale(g_c);
	else
		uselocale(LC_GLOBAL_LOCALE);
}
static const char *regime_name(int r)
{
	static const char *n[] = {"C global", "comma global", "C global + comma per-thread", "comma global + C per-thread"};
	return n[r];
}
static bool regime_is_comma(int r) { return r == 1 || r == 2; }

struct LocaleProbe {
	locale_t thr;
	std::string glob;
	long objs;
	int regime;
	LocaleProbe(int r) : regime(r)
	{
		thr = uselocale((locale_t)0);
		const char *g = setlocale(LC_NUMERIC, nullptr);
		glob = g ? g : "";
		objs = verif_locale_live();
	}
	void check(Ctx &ctx, const std::string &what)
	{
		locale_t now = uselocale((locale_t)0);
		if (now != thr)
		{
			uselocale(thr);
			ctx.fail("thread-locale-changed", what + ": the calling thread's locale handle was not restored (regime " + regime_name(regime) + ")");
		}
		const char *g = setlocale(LC_NUMERIC, nullptr);
		if (glob != (g ? g : ""))
			ctx.fail("global-locale-changed", what + ": the global LC_NUMERIC changed from " + glob + " to " + (g ? g : "NULL"));
		char b[32];
		snprintf(b, sizeof b, "%.1f", 1.5);
		const char *want = regime_is_comma(regime) ? "1,5" : "1.5";
		if (strcmp(b, want) != 0)
			ctx.fail("numeric-format-changed", what + ": printf(\"%.1f\", 1.5) now prints " + b + " in regime " + regime_name(regime));
		if (verif_locale_live() != objs)
			ctx.fail("locale-object-leak", what + ": " + str(verif_locale_live() - objs) + " locale object(s) created by the call were not released");
	}
};

struct Outcome {
	int err;
	size_t end;
	bool has;
	Val v;
	std::string ser;
	bool same(const Outcome &o, std::string &why) const
	{
		if (err != o.err)
		{
			why = std::string("status ") + json_tokener_error_desc((json_tokener_error)err) + " vs " + json_tokener_error_desc((json_tokener_error)o.err);
			return false;
		}
		if (end != o.end)
		{
			why = "parse end " + str(end) + " vs " + str(o.end);
			return false;
		}
		if (has != o.has)
		{
			why = "value presence";
			return false;
		}
		if (!same_val(v, o.v, why, DBL_BITS))
			return false;
		if (ser != o.ser)
		{
			why = "serialisation " + quote(ser, 100) + " vs " + quote(o.ser, 100);
			return false;
		}
		return true;
	}
};

struct ParseSpec {
	std::string bytes;
	bool nul = true;
	int flags = 0;
	int depth = 32;
	int lenmode = 0; // 0 exact, 2: len < -1
	std::vector<size_t> cuts;
	long fail_alloc = -1;
};

static Outcome run_parse(Ctx &ctx, const ParseSpec &s, int regime, bool probe)
{
	Outcome o;
	json_tokener *tok = json_tokener_new_ex(s.depth);
	json_tokener_set_flags(tok, s.flags);
	HeapCopy hc(s.bytes, s.nul);
	json_object *obj = nullptr;
	size_t pos = 0;
	std::vector<size_t> cuts = s.cuts;
	cuts.push_back(hc.n);
	int calls = 0;
	for (size_t e : cuts)
	{
		if (e > hc.n)
			e = hc.n;
		if (e <= pos && !(hc.n == 0 && calls == 0))
			continue;
		LocaleProbe lp(regime);
		if (s.fail_alloc >= 0)
			verif_alloc_arm(s.fail_alloc, -1);
		if (s.lenmode == 2)
			obj = json_tokener_parse_ex(tok, hc.p, -2);
		else
			obj = json_tokener_parse_ex(tok, hc.p + pos, (int)(e - pos));
		if (s.fail_alloc >= 0)
			verif_alloc_disarm();
		calls++;
		if (probe)
			lp.check(ctx, "json_tokener_parse_ex returning '" + std::string(json_tokener_error_desc(json_tokener_get_error(tok))) + "' on " + quote(s.bytes, 120));
		o.err = (int)json_tokener_get_error(tok);
		o.end = pos + json_tokener_get_parse_end(tok);
		if (o.err != json_tokener_continue)
			break;
		pos = e;
	}
	o.has = obj != nullptr;
	if (obj)
	{
		o.v = dump(obj);
		LocaleProbe lp(regime);
		const char *t = json_object_to_json_string_ext(obj, JSON_C_TO_STRING_PLAIN);
		o.ser = t ? t : "<NULL>";
		if (probe)
			lp.check(ctx, "serialising the parsed value");
	}
	json_object_put(obj);
	json_tokener_free(tok);
	return o;
}

static std::string doubles_text(Choices &c)
{
	TextGenOpts o;
	o.allow_nul_key = false;
	o.max_depth = 4;
	o.max_nodes = 3 + c.len(20);
	TextGen g(c, o);
	std::string t = g.document(c.coin(30) ? (int)c.range(1, 3) : 0);
	if (!g.f_frac)
	{
		// make sure a non-integer is present
		static const char *d[] = {"1.5", "-0.25", "2.5e3", "1e-2", "12345.678901", "1.0", "0.1E+2", "6.02e23"};
		t = "[" + t + "," + d[c.pickn(8)] + "]";
	}
	return t;
}

static ParseSpec class_spec(int cls)
{
	ParseSpec s;
	switch (cls)
	{
	case 0: s.bytes = "[1.5,-2.25e2,{\"k\":0.125}]"; break;                          // success
	case 1: s.bytes = "[1.5,2.5"; s.nul = false; break;                              // continue
	case 2: s.bytes = "[[[[1.5]]]]"; s.depth = 3; break;                             // depth
	case 3: s.bytes = "[1.5"; break;                                                 // eof (NUL inside)
	case 4: s.bytes = "[1.5,@]"; break;                                              // unexpected
	case 5: s.bytes = "[1.5,nul!]"; break;                                           // null expected
	case 6: s.bytes = "[1.5,tru!]"; break;                                           // boolean expected
	case 7: s.bytes = "[1.5.5]"; break;                                              // number expected
	case 8: s.bytes = "[1.5 2.5]"; break;                                            // array separator
	case 9: s.bytes = "{1.5:2}"; break;                                              // object key name
	case 10: s.bytes = "{\"a\" 1.5}"; break;                                         // object key sep
	case 11: s.bytes = "{\"a\":1.5 \"b\":2}"; break;                                 // object value sep
	case 12: s.bytes = "[1.5,\"\\q\"]"; break;                                       // invalid string sequence
	case 13: s.bytes = "[1.5,/x]"; break;                                            // comment
	case 14: s.bytes = "[1.5,\"\xff\"]"; s.flags = JSON_TOKENER_VALIDATE_UTF8; break; // utf8
	case 15: s.bytes = "[1.5]"; s.lenmode = 2; break;                                // size
	case 16: s.bytes = "[1.5,2.5]"; s.fail_alloc = 0; break;                         // memory (locale duplication fails)
	case 17: s.bytes = "[1.5,2.5]"; s.fail_alloc = 1; break;                         // memory (second allocation)
	case 18: s.bytes = "[1.5,2.5]"; s.fail_alloc = 4; break;                         // memory (later allocation)
	case 19: s.bytes = "[1.5] x"; s.flags = JSON_TOKENER_STRICT; break;              // strict trailing
	case 20: s.bytes = "[1.-5]"; break;                                              // malformed float that reaches the conversion
	case 21: s.bytes = "[-e5]"; break;
	case 22: s.bytes = "[2.+7,1.5]"; break;
	default: s.bytes = "[1.5e]"; s.flags = JSON_TOKENER_STRICT; break;               // dangling exponent, strict
	}
	return s;
}

static void compare_regimes(Ctx &ctx, const ParseSpec &s, const std::vector<int> &regimes)
{
	set_regime(0);
	Outcome ref = run_parse(ctx, s, 0, true);
	for (int r : regimes)
	{
		if (r == 0)
			continue;
		set_regime(r);
		Outcome got = run_parse(ctx, s, r, true);
		set_regime(0);
		std::string why;
		if (!got.same(ref, why))
		{
			std::string cs;
			for (size_t x : s.cuts)
				cs += str(x) + ",";
			ctx.fail("parse-locale-dependent", std::string("parsing under '") + regime_name(r) + "' differs from the C locale: " + why + " | text " + quote(s.bytes, 200) +
			                                       " cuts [" + cs + "] flags " + str(s.flags) + " depth " + str(s.depth));
		}
	}
}
} // namespace

void harness_init(const std::string &)
{
	if (setlocale(LC_ALL, "xx_XX"))
	{
		char b[16];
		snprintf(b, sizeof b, "%.1f", 1.5);
		g_have_comma = strcmp(b, "1,5") == 0;
	}
	setlocale(LC_ALL, "C");
	g_comma = newlocale(LC_ALL_MASK, "xx_XX", (locale_t)0);
	g_c = newlocale(LC_ALL_MASK, "C", (locale_t)0);
	if (!g_comma)
		g_have_comma = false;
}

void run_case(Choices &c, Ctx &ctx)
{
	if (!g_have_comma)
		ctx.fail("HARNESS", "the synthetic comma-decimal locale xx_XX is not available (LOCPATH not set or localedef failed)");
	// nothing may leak from a case that failed half-way (the shrinker runs many cases in one process)
	set_regime(0);
	json_c_set_serialization_double_format(nullptr, JSON_C_OPTION_GLOBAL);
	json_c_set_serialization_double_format(nullptr, JSON_C_OPTION_THREAD);
	LeakScope leak;
	if (ctx.mode == "classes")
	{
		uint64_t idx = c.bits(8);
		int cls = (int)(idx % 24), regime = (int)(idx / 24 % 4), split = (int)(idx / 96);
		ParseSpec s = class_spec(cls);
		size_t n = s.bytes.size() + (s.nul ? 1 : 0);
		if (split == 1 && n > 3)
		{
			size_t dot = s.bytes.find('.');
			s.cuts.push_back(dot != std::string::npos ? dot + 1 : n / 2); // right after the decimal point
		}
		else if (split == 2)
			for (size_t i = 1; i < n; i++)
				s.cuts.push_back(i);
		ctx.note(std::string("class ") + str(cls) + " " + quote(s.bytes) + " regime " + regime_name(regime) + " split " + str(split));
		compare_regimes(ctx, s, {regime});
		set_regime(0);
		ctx.nontrivial(idx);
		leak.check(ctx);
		return;
	}
	// everything that depends on strtod in the generators happens under the C locale
	set_regime(0);
	std::vector<int> regimes = {1, 2, 3};
	switch (c.pick({5, 4, 1}))
	{
	case 0: {
		ParseSpec s;
		s.bytes = doubles_text(c);
		if (c.coin(25))
		{
			// mutate into some failure class
			size_t pos = c.pickn(s.bytes.size() + 1);
			switch (c.pickn(4))
			{
			case 0: s.bytes.resize(pos); break;
			case 1: s.bytes.insert(pos, 1, (char)c.range(0x21, 0x7e)); break;
			case 2:
				s.flags = JSON_TOKENER_STRICT;
				s.bytes += " 1.5";
				break;
			default: s.depth = (int)c.range(1, 3); break;
			}
		}
		s.nul = c.coin(70);
		size_t n = s.bytes.size() + (s.nul ? 1 : 0);
		switch (c.pick({3, 4, 2, 1}))
		{
		case 0: break;
		case 1: {
			// split right behind a '.', 'e' or digit of some number
			std::vector<size_t> cand;
			for (size_t i = 0; i < s.bytes.size(); i++)
				if (s.bytes[i] == '.' || s.bytes[i] == 'e' || s.bytes[i] == 'E')
					cand.push_back(i + 1);
			if (!cand.empty())
			{
				s.cuts.push_back(cand[c.pickn(cand.size())]);
				if (c.coin(40) && s.cuts[0] + 1 < n)
					s.cuts.push_back(s.cuts[0] + 1);
				ctx.label("split_inside_number");
			}
			break;
		}
		case 2:
			for (size_t i = 0, k = 1 + c.pickn(4); i < k && n > 1; i++)
				s.cuts.push_back(1 + c.pickn(n - 1));
			std::sort(s.cuts.begin(), s.cuts.end());
			break;
		default:
			for (size_t i = 1; i < n; i++)
				s.cuts.push_back(i);
			break;
		}
		if (c.coin(8))
			s.fail_alloc = (long)c.range(0, 12);
		ctx.note("parse " + quote(s.bytes, 400) + " cuts " + str(s.cuts.size()) + " flags " + str(s.flags) + " depth " + str(s.depth) + " fail_alloc " + str(s.fail_alloc));
		compare_regimes(ctx, s, regimes);
		ctx.label("parse");
		ctx.nontrivial(hash_str(s.bytes, hash_u64(s.cuts.size() * 8 + s.flags)));
		break;
	}
	case 1: {
		// serialisation of built trees
		TreeGenOpts o;
		o.max_depth = 4;
		o.max_nodes = 3 + c.len(25);
		TreeGen g(c, o);
		Val v = g.root();
		if (!g.f_double)
		{
			Val a = Val::arr();
			a.a.push_back(v);
			a.a.push_back(Val::dbl(g.finite_double()));
			v = a;
		}
		if (c.coin(30))
		{
			// long formatted texts: the decimal separator sits far from the start
			Val a = Val::arr();
			a.a.push_back(v);
			for (size_t i = 0, n = 1 + c.pickn(3); i < n; i++)
			{
				double mag;
				switch (c.pickn(4))
				{
				case 0: mag = 1e15 + (double)c.range(0, 3500000000000000ULL) + 0.5; break; // 16 integer digits + .5
				case 1: mag = (double)c.range(1, 999999) * 1e9 + 0.25; break;
				case 2: mag = 4503599627370495.5 - (double)c.range(0, 1000); break;
				default: mag = (double)c.range(1, 1u << 30) + 0.125; break;
				}
				a.a.push_back(Val::dbl(c.coin(50) ? -mag : mag));
			}
			v = a;
			ctx.label("long_double_text");
		}
		// some trees also carry doubles with a per-object format (json_object_double_to_json_string + format as user data)
		int perobj = c.coin(25) ? 1 + (int)c.pickn(4) : 0;
		auto decorate = [&](json_object *t) {
			static const char *pf[] = {"", "%.4f", "%+.2f", "%12.3f", "%.6e"};
			if (!perobj || !t || json_object_get_type(t) != json_type_array)
				return;
			json_object *d = json_object_new_double(-1234.5625);
			json_object_set_serializer(d, json_object_double_to_json_string, (void *)pf[perobj], nullptr);
			json_object_array_add(t, d);
		};
		json_object *j = build(v);
		decorate(j);
		if (perobj && j && json_object_get_type(j) == json_type_array)
			ctx.label("per_object_double_format");
		int flags = (int)c.range(0, 63);
		bool custom = c.coin(30);
		if (custom)
		{
			static const char *fmts[] = {"%.3f", "%.10g", "%8.2f", "%+.3f", "% .2f", "%012.4f", "%-10.1f", "%e", "%.0f", "%#.3g"};
			json_c_set_serialization_double_format(fmts[c.pickn(10)], c.coin(50) ? JSON_C_OPTION_GLOBAL : JSON_C_OPTION_THREAD);
		}
		std::string ref = json_object_to_json_string_ext(j, flags);
		for (int r : regimes)
		{
			set_regime(r);
			std::string got;
			{
				LocaleProbe lp(r);
				const char *t = json_object_to_json_string_ext(j, flags);
				got = t ? t : "<NULL>";
				lp.check(ctx, "serialisation");
			}
			// a fresh tree too (no cached buffer)
			json_object *j2 = build(v);
			decorate(j2);
			std::string got2 = json_object_to_json_string_ext(j2, flags);
			json_object_put(j2);
			set_regime(0);
			if (got != ref || got2 != ref)
			{
				json_object_put(j);
				ctx.fail("serialize-locale-dependent", std::string("serialisation under '") + regime_name(r) + "' is " + quote(got != ref ? got : got2, 200) + ", under the C locale " +
				                                           quote(ref, 200));
			}
		}
		json_object_put(j);
		if (custom)
		{
			json_c_set_serialization_double_format(nullptr, JSON_C_OPTION_GLOBAL);
			json_c_set_serialization_double_format(nullptr, JSON_C_OPTION_THREAD);
		}
		ctx.note("serialise " + show(v, 300) + " flags " + str(flags));
		ctx.label("serialize");
		ctx.nontrivial(hash_val(v, hash_u64(flags)));
		break;
	}
	default: {
		// convenience entry points
		std::string t = doubles_text(c);
		json_object *ref = json_tokener_parse(t.c_str());
		Val rv = dump(ref);
		json_object_put(ref);
		for (int r : regimes)
		{
			set_regime(r);
			LocaleProbe lp(r);
			enum json_tokener_error e;
			json_object *o = json_tokener_parse_verbose(t.c_str(), &e);
			lp.check(ctx, "json_tokener_parse_verbose");
			Val gv = dump(o);
			json_object_put(o);
			set_regime(0);
			std::string why;
			if (!same_val(rv, gv, why, DBL_BITS))
				ctx.fail("parse-locale-dependent", std::string("json_tokener_parse_verbose under '") + regime_name(r) + "' differs: " + why + " text " + quote(t, 200));
		}
		ctx.label("parse_verbose");
		ctx.nontrivial(hash_str(t));
		break;
	}
	}
	set_regime(0);
	leak.check(ctx);
}
#define VERIF_HAVE_INIT 1
#include "engine_main.hpp"
