// C20 – file-descriptor I/O is complete and exact under arbitrary short reads and writes.
// read()/write() are interposed at link time (-Wl,--wrap) and follow a generated script.
#include "common.hpp"
#include "refjson.hpp"
#include "treegen.hpp"
#include "textgen.hpp"
#include "parseutil.hpp"
#include "bytegen.hpp"
#include <sys/mman.h>
#include <unistd.h>
#include <fcntl.h>
#include <dirent.h>
#include <cerrno>
using namespace vf;

const char *HARNESS_ID = "C20";
std::vector<ModeInfo> harness_modes()
{
	return {{"gen", 0, "documents x scripts of per-call transfer sizes and injected read/write errors; file variants on unopenable paths"},
	        {"small", 65 * 66, "one fixed 64-byte document: every uniform chunk size 1..64 and every single-error position, for reading and writing"}};
}

// ------------------------------------------------------------------ scripted read/write
namespace {
const int MAGIC_FD = 987654;
struct IoScript {
	bool active = false;
	std::string data;          // bytes to serve to read()
	size_t rpos = 0;
	std::vector<size_t> sizes; // per-call transfer sizes, cycled
	long err_at = -1;          // call index that fails
	int err_no = EIO;
	long calls = 0;
	std::string written;       // bytes received by write()
	bool file_mode = false;    // script applies to reads on whatever descriptor the library opened
	bool overrun = false;      // write() was offered bytes beyond the buffer it announced
	size_t max_count_seen = 0;
} g_io;
}
extern "C" {
ssize_t __real_read(int, void *, size_t);
ssize_t __real_write(int, const void *, size_t);
ssize_t __wrap_read(int fd, void *buf, size_t count)
{
	if (g_io.active && g_io.file_mode && fd != MAGIC_FD)
	{
		// json_object_from_file: the library opened a real file itself; its reads are shortened / failed per script
		long n = g_io.calls++;
		if (n == g_io.err_at)
		{
			errno = g_io.err_no;
			return -1;
		}
		size_t want = g_io.sizes.empty() ? count : g_io.sizes[(size_t)n % g_io.sizes.size()];
		if (want < 1)
			want = 1;
		ssize_t r = __real_read(fd, buf, std::min(want, count));
		if (r > 0)
			g_io.rpos += (size_t)r;
		return r;
	}
	if (fd != MAGIC_FD || !g_io.active)
		return __real_read(fd, buf, count);
	long n = g_io.calls++;
	if (n == g_io.err_at)
	{
		errno = g_io.err_no;
		return -1;
	}
	size_t want = g_io.sizes.empty() ? count : g_io.sizes[(size_t)n % g_io.sizes.size()];
	if (want < 1)
		want = 1;
	size_t left = g_io.data.size() - g_io.rpos;
	size_t give = std::min(std::min(want, count), left);
	if (give)
		memcpy(buf, g_io.data.data() + g_io.rpos, give);
	g_io.rpos += give;
	g_io.max_count_seen = std::max(g_io.max_count_seen, count);
	return (ssize_t)give; // 0 = end of file
}
ssize_t __wrap_write(int fd, const void *buf, size_t count)
{
	if (fd != MAGIC_FD || !g_io.active)
		return __real_write(fd, buf, count);
	long n = g_io.calls++;
	if (n == g_io.err_at)
	{
		errno = g_io.err_no;
		return -1;
	}
	size_t want = g_io.sizes.empty() ? count : g_io.sizes[(size_t)n % g_io.sizes.size()];
	if (want < 1)
		want = 1;
	size_t take = std::min(want, count);
	g_io.written.append((const char *)buf, take); // ASan checks the source range
	return (ssize_t)take;
}
}

namespace {
static size_t count_fds()
{
	size_t n = 0;
	DIR *d = opendir("/proc/self/fd");
	if (!d)
		return 0;
	while (readdir(d))
		n++;
	closedir(d);
	return n;
}
static std::string last_err()
{
	const char *e = json_util_get_last_err();
	return e ? e : "";
}
// the last-error buffer is sticky: plant a sentinel through the public API so a fresh message can be told from a stale one
static std::string g_sentinel;
static void plant_sentinel()
{
	(void)json_type_to_name((json_type)99);
	g_sentinel = last_err();
}
static bool fresh_message()
{
	std::string m = last_err();
	return !m.empty() && m != g_sentinel;
}

static void check_read(Ctx &ctx, const std::string &bytes, const std::vector<size_t> &sizes, long err_at, int err_no, int depth, bool use_ex, bool via_file = false)
{
	g_io = IoScript();
	g_io.data = bytes;
	g_io.sizes = sizes;
	g_io.err_at = err_at;
	g_io.err_no = err_no;
	int mfd = -1;
	std::string path;
	if (via_file)
	{
		// a real (memory) file holding the bytes, opened by the library itself through its path
		mfd = memfd_create("c20r", 0);
		if (mfd < 0 || __real_write(mfd, bytes.data(), bytes.size()) != (ssize_t)bytes.size())
		{
			if (mfd >= 0)
				close(mfd);
			return;
		}
		path = "/proc/self/fd/" + str(mfd);
		g_io.file_mode = true;
		use_ex = false;
	}
	size_t fds0 = count_fds();
	plant_sentinel();
	g_io.active = true;
	json_object *o = via_file ? json_object_from_file(path.c_str()) : use_ex ? json_object_from_fd_ex(MAGIC_FD, depth) : json_object_from_fd(MAGIC_FD);
	g_io.active = false;
	struct CloseMfd {
		int fd;
		~CloseMfd()
		{
			if (fd >= 0)
				close(fd);
		}
	} closer{mfd};
	std::string msg = last_err();
	std::string sc = "read script sizes=";
	for (size_t i = 0; i < std::min<size_t>(sizes.size(), 8); i++)
		sc += str(sizes[i]) + ",";
	sc += std::string(via_file ? " [json_object_from_file]" : "") + " error at call " + str(err_at) + " (errno " + str(err_no) + ") depth " + (use_ex ? str(depth) : std::string("default")) + " document " + quote(bytes, 200) +
	      " (" + str(bytes.size()) + " bytes)";
	bool error_injected = err_at >= 0 && err_at < g_io.calls;
	if (error_injected)
	{
		if (o)
		{
			json_object_put(o);
			ctx.fail("read-error-ignored", "a value was returned although read() failed: " + sc);
		}
		if (!fresh_message())
			ctx.fail("no-message", "read error without a retrievable message: " + sc);
	}
	else
	{
		int d = use_ex ? depth : JSON_TOKENER_DEFAULT_DEPTH;
		if (use_ex && depth == -1)
			d = JSON_TOKENER_DEFAULT_DEPTH;
		if (d < 1)
		{
			if (o)
			{
				json_object_put(o);
				ctx.fail("bad-depth", "from_fd_ex accepted depth " + str(depth));
			}
			if (!fresh_message())
				ctx.fail("no-message", "bad depth without a retrievable message");
		}
		else
		{
			if (g_io.rpos != bytes.size())
			{
				json_object_put(o);
				ctx.fail("short-read", "only " + str(g_io.rpos) + " of " + str(bytes.size()) + " bytes were read before parsing: " + sc);
			}
			POut ref = parse_fresh(bytes, 0, d, false);
			Val got = dump(o);
			bool has = o != nullptr;
			json_object_put(o);
			std::string why;
			if (has != ref.has || (has && !same_val(ref.v, got, why, DBL_BITS)))
				ctx.fail("read-differs", "result differs from parsing the same bytes from memory in one call (" + ref.show_() + " vs " + (has ? show(got, 200) : std::string("NULL")) +
				                             ") " + why + ": " + sc);
			if (!has && ref.err != json_tokener_success && !fresh_message())
				ctx.fail("no-message", "parse failure without a retrievable message: " + sc);
		}
	}
	if (count_fds() != fds0)
		ctx.fail("fd-leak", "descriptor count changed: " + sc);
}

static void check_write(Ctx &ctx, json_object *j, int flags, const std::vector<size_t> &sizes, long err_at, int err_no)
{
	size_t len = 0;
	const char *t = json_object_to_json_string_length(j, flags, &len);
	std::string expect(t ? t : "", len);
	g_io = IoScript();
	g_io.active = true;
	g_io.sizes = sizes;
	g_io.err_at = err_at;
	g_io.err_no = err_no;
	plant_sentinel();
	int rc = json_object_to_fd(MAGIC_FD, j, flags);
	g_io.active = false;
	std::string msg = last_err();
	std::string sc = "write script sizes=";
	for (size_t i = 0; i < std::min<size_t>(sizes.size(), 8); i++)
		sc += str(sizes[i]) + ",";
	sc += " error at call " + str(err_at) + " (errno " + str(err_no) + ") flags " + str(flags) + " serialisation " + quote(expect, 200) + " (" + str(expect.size()) + " bytes)";
	bool error_injected = err_at >= 0 && err_at < g_io.calls;
	if (error_injected)
	{
		if (rc != -1)
			ctx.fail("write-error-ignored", "json_object_to_fd returned " + str(rc) + " although write() failed: " + sc);
		if (expect.compare(0, g_io.written.size(), g_io.written) != 0)
			ctx.fail("write-garbled", "bytes delivered before the error are not a prefix of the serialisation: " + quote(g_io.written, 200) + " | " + sc);
		if (!fresh_message())
			ctx.fail("no-message", "write error without a retrievable message: " + sc);
	}
	else
	{
		if (rc != 0)
			ctx.fail("write-fails", "json_object_to_fd returned " + str(rc) + " without any write error: " + sc);
		if (g_io.written != expect)
			ctx.fail("write-differs", "delivered bytes differ from the serialisation (" + str(g_io.written.size()) + " bytes delivered): " + quote(g_io.written, 200) + " | " + sc);
	}
}

static std::vector<size_t> gen_sizes(Choices &c, size_t total)
{
	std::vector<size_t> s;
	switch (c.pick({2, 3, 3, 2, 2}))
	{
	case 0: break; // whole buffer each time
	case 1: s.push_back(1); break;
	case 2: s.push_back((size_t)c.range(1, 17)); break;
	case 3: {
		size_t n = 1 + c.pickn(6);
		for (size_t i = 0; i < n; i++)
			s.push_back((size_t)c.range(1, c.coin(50) ? 9 : 5000));
		break;
	}
	default: s.push_back(c.coin(50) ? 4095 : 4096 - c.pickn(3)); s.push_back(1); break;
	}
	(void)total;
	return s;
}
static const int ERRS[] = {EIO, EINTR, ENOSPC, EAGAIN, EBADF};
} // namespace

void run_case(Choices &c, Ctx &ctx)
{
	LeakScope leak;
	if (ctx.mode == "small")
	{
		uint64_t idx = c.bits(8);
		size_t a = idx % 66, b = idx / 66; // a: chunk size 0..65 (0 = whole), b: error position 0..64 (64 = none)
		std::string doc = "{\"k\":[1,2.5,\"s\\n\",null,true],\"o\":{\"x\":-7,\"y\":[[]]},\"z\":\"\\u00e4\"}";
		if (doc.size() > 64)
			ctx.fail("HARNESS", "fixed document longer than 64 bytes");
		doc.resize(64, ' ');
		std::vector<size_t> sizes;
		if (a)
			sizes.push_back(a);
		long err_at = b == 64 ? -1 : (long)b;
		check_read(ctx, doc, sizes, err_at, ERRS[idx % 5], 32, idx & 1);
		json_object *j = json_tokener_parse(doc.c_str());
		check_write(ctx, j, (int)(idx % 4), sizes, err_at, ERRS[(idx + 1) % 5]);
		json_object_put(j);
		ctx.nontrivial(idx);
		ctx.note("chunk " + str(a) + " error at " + str(err_at));
		leak.check(ctx);
		return;
	}
	bool nt = false;
	switch (c.pick({10, 10, 2}))
	{
	case 0: { // reading
		std::string bytes;
		switch (c.pick({5, 3, 2, 2}))
		{
		case 0: {
			TextGenOpts o;
			o.allow_nul_key = false;
			o.max_depth = 6;
			o.max_nodes = 3 + c.len(40);
			TextGen g(c, o);
			bytes = g.document(c.coin(30) ? (int)c.range(1, 6) : 0);
			ctx.label("read_valid");
			break;
		}
		case 1: { // long document spanning several 4096-byte reads
			size_t n = (size_t)c.range(4000, 20000);
			bytes = "[";
			while (bytes.size() < n)
				bytes += "\"" + std::string(c.range(0, 300), 'x') + "\",";
			bytes += "null]";
			if (c.coin(30))
				bytes.resize(c.coin(50) ? 4096 : 8192, ' '); // exactly at a buffer boundary (invalid: truncated)
			else if (c.coin(40))
			{
				// nesting somewhere in the long document, so a small depth limit trips in an arbitrary read block
				size_t at = 1 + c.pickn(bytes.size() - 2);
				at = bytes.find(',', at);
				if (at != std::string::npos)
					bytes.insert(at + 1, std::string(c.range(1, 6), '[') + "1" + std::string(6, ' ') + ",");
				// (unbalanced on purpose in some cases: still compared with the in-memory parse)
			}
			ctx.label("read_long");
			break;
		}
		case 2:
			bytes = gen_text(c, ctx); // possibly invalid
			ctx.label("read_maybe_invalid");
			break;
		default: bytes = c.coin(50) ? "" : "   "; ctx.label("read_empty"); break;
		}
		if (c.coin(4))
		{
			// a UTF-8 byte order mark (or part of one) in front: whatever the in-memory parser makes of these bytes,
			// the descriptor entry points must make the same of them, however the reads are split
			static const char bom[] = "\xef\xbb\xbf";
			bytes = std::string(bom, 1 + c.pickn(3)) + bytes;
			ctx.label("read_bom_prefix");
		}
		std::vector<size_t> sizes = gen_sizes(c, bytes.size());
		long err_at = c.coin(25) ? (long)c.range(0, 12) : -1;
		int depth = c.coin(70) ? 32 : (int)c.irange(-2, 8);
		bool use_ex = c.coin(60);
		bool via_file = c.coin(25);
		ctx.note("read " + quote(bytes, 300) + " sizes " + str(sizes.size()) + " err_at " + str(err_at) + " depth " + str(depth) + (via_file ? " via json_object_from_file" : ""));
		check_read(ctx, bytes, sizes, err_at, ERRS[c.pickn(5)], depth, use_ex, via_file);
		if (via_file)
			ctx.label("read_via_from_file");
		if (err_at >= 0)
			ctx.label("read_error_injected");
		nt = !sizes.empty() || err_at >= 0;
		break;
	}
	case 1: { // writing
		TreeGenOpts o;
		o.max_depth = 5;
		o.max_nodes = 3 + c.len(40);
		TreeGen g(c, o);
		Val v = g.root();
		if (c.coin(15))
		{
			v = Val::arr();
			for (size_t i = 0, n = c.range(10, 60); i < n; i++)
				v.a.push_back(Val::str(std::string(c.range(0, 400), 'w')));
			ctx.label("write_long");
		}
		if (v.k == Val::Null)
			v = Val::arr();
		json_object *j = build(v);
		std::vector<size_t> sizes = gen_sizes(c, 0);
		long err_at = c.coin(25) ? (long)c.range(0, 12) : -1;
		ctx.note("write " + show(v, 300) + " sizes " + str(sizes.size()) + " err_at " + str(err_at));
		check_write(ctx, j, (int)c.range(0, 31), sizes, err_at, ERRS[c.pickn(5)]);
		// NULL object: documented failure
		plant_sentinel();
		if (json_object_to_fd(MAGIC_FD, nullptr, 0) != -1 || !fresh_message())
			ctx.fail("null-object", "json_object_to_fd(NULL object) did not fail with a message");
		json_object_put(j);
		if (err_at >= 0)
			ctx.label("write_error_injected");
		nt = !sizes.empty() || err_at >= 0;
		break;
	}
	default: { // file variants
		size_t fds0 = count_fds();
		plant_sentinel();
		json_object *o = json_object_from_file("/nonexistent-dir/verif/no-such-file.json");
		if (o || !fresh_message())
			ctx.fail("unopenable", "json_object_from_file on an unopenable path did not fail with a message");
		json_object *j = json_object_new_array();
		json_object_array_add(j, json_object_new_int(1));
		{
			// a path long enough that the message has to be truncated to the error buffer
			std::string longp = "/nonexistent-dir/" + std::string(c.range(100, 400), 'p') + "/f.json";
			plant_sentinel();
			json_object *lo = json_object_from_file(longp.c_str());
			if (lo || !fresh_message())
				ctx.fail("unopenable", "json_object_from_file on a long unopenable path (" + str(longp.size()) + " bytes) did not fail with a retrievable message");
			plant_sentinel();
			if (json_object_to_file(longp.c_str(), j) != -1 || !fresh_message())
				ctx.fail("unopenable", "json_object_to_file on a long unopenable path (" + str(longp.size()) + " bytes) did not fail with a retrievable message");
		}
		plant_sentinel();
		if (json_object_to_file("/nonexistent-dir/verif/out.json", j) != -1 || !fresh_message())
			ctx.fail("unopenable", "json_object_to_file on an unopenable path did not fail with a message");
		if (json_object_to_file_ext("/nonexistent-dir/verif/out.json", j, JSON_C_TO_STRING_PRETTY) != -1)
			ctx.fail("unopenable", "json_object_to_file_ext on an unopenable path did not fail");
		// round trip through a real descriptor (memory file)
		int fd = memfd_create("c20", 0);
		if (fd >= 0)
		{
			std::string path = "/proc/self/fd/" + str(fd);
			if (json_object_to_file_ext(path.c_str(), j, (int)c.range(0, 15)) != 0)
				ctx.fail("to-file", "json_object_to_file_ext to a memory file failed: " + last_err());
			json_object *back = json_object_from_file(path.c_str());
			if (!back || !json_object_equal(back, j))
				ctx.fail("file-roundtrip", "to_file/from_file round trip differs");
			json_object_put(back);
			// rewriting an existing, longer file must leave exactly the new serialisation
			json_object *big = json_object_new_array();
			for (size_t i = 0, n = 5 + c.pickn(60); i < n; i++)
				json_object_array_add(big, json_object_new_string("a long earlier content"));
			int fl = (int)c.range(0, 15);
			if (json_object_to_file_ext(path.c_str(), big, fl) != 0 || json_object_to_file_ext(path.c_str(), j, fl) != 0)
				ctx.fail("to-file", "rewriting a memory file failed: " + last_err());
			json_object_put(big);
			std::string raw;
			char rb[4096];
			lseek(fd, 0, SEEK_SET);
			ssize_t rn;
			while ((rn = __real_read(fd, rb, sizeof rb)) > 0)
				raw.append(rb, (size_t)rn);
			std::string want = json_object_to_json_string_ext(j, fl);
			if (raw != want)
				ctx.fail("file-rewrite", "after rewriting a longer file the file holds " + str(raw.size()) + " bytes, the serialisation has " + str(want.size()) + ": " + quote(raw, 120));
			close(fd);
		}
		json_object_put(j);
		if (count_fds() != fds0)
			ctx.fail("fd-leak", "descriptor count changed in the file variants");
		ctx.label("file_variants");
		nt = true;
		break;
	}
	}
	if (nt)
		ctx.nontrivial(hash_str(ctx.desc.empty() ? std::string((const char *)c.bp->data(), c.bp->size()) : ctx.desc));
	leak.check(ctx);
}
#include "engine_main.hpp"
