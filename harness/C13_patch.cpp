// C13 – JSON Patch application follows RFC 6902 and is safe on arbitrary patch documents.
#include "common.hpp"
#include <functional>
#include "treegen.hpp"
#include "rfc6902.hpp"
#include <cerrno>
using namespace vf;

const char *HARNESS_ID = "C13";
std::vector<ModeInfo> harness_modes()
{
	return {{"conform", 0, "target document + operation sequence generated against the evolving reference document (valid and deliberately failing ops)"},
	        {"malformed", 0, "well-formed sequences with corrupted operations: wrong types, missing/null fields, unknown ops, non-object elements, non-array patches"},
	        {"parsed", 0, "document and patch given as JSON texts (NUL separated) parsed by json-c itself (libFuzzer / replay)"}};
}

namespace {
static const char *KEYS[] = {"", "/", "~", "~0", "~1", "~01", "a/b", "m~n", "0", "00", "1", "2", "-", "01", "a", "b", "ab", "abc", "foo", "x~1y", " ", "%s", "10"};
static const size_t NKEYS = sizeof(KEYS) / sizeof(KEYS[0]);

static Val mkop(const std::string &op, const std::string &path)
{
	Val o = Val::obj();
	o.set("op", Val::str(op));
	o.set("path", Val::str(path));
	return o;
}

static Val small_value(Choices &c, int depth = 0)
{
	switch (c.pick({3, 3, 3, 3, 2, depth < 2 ? 4u : 0u, depth < 2 ? 4u : 0u}))
	{
	case 0: return Val::null();
	case 1: return Val::i64(c.irange(-5, 5));
	case 2: return Val::str(std::string(KEYS[c.pickn(NKEYS)]));
	case 3: return Val::boolean(c.coin(50));
	case 4: return c.coin(50) ? Val::dbl((double)c.irange(-3, 3)) : Val::dbl(0.5 * c.irange(-4, 4));
	case 5: {
		Val a = Val::arr();
		size_t n = c.pickn(4);
		for (size_t i = 0; i < n; i++)
			a.a.push_back(small_value(c, depth + 1));
		return a;
	}
	default: {
		Val o = Val::obj();
		size_t n = c.pickn(4);
		for (size_t i = 0; i < n; i++)
			o.set(KEYS[c.pickn(NKEYS)], small_value(c, depth + 1));
		return o;
	}
	}
}

struct Gen {
	Choices &c;
	Ctx &ctx;
	PatchDoc ref;
	bool f_escaped = false, f_array_end = false, f_dependent = false, f_fail = false;
	std::vector<std::string> written; // locations written by earlier ops
	bool f_locality = false;
	Gen(Choices &cc, Ctx &cx) : c(cc), ctx(cx) {}

	std::string existing_path()
	{
		std::vector<std::string> paths;
		ptr_all_paths(ref.v, "", paths);
		// prefer non-root
		if (paths.size() > 1 && c.coin(85))
			return paths[1 + c.pickn(paths.size() - 1)];
		return paths[c.pickn(paths.size())];
	}
	bool have_last = false, stale_possible = false;
	std::string last_container; // where the previous add went: consecutive operations tend to work in one place
	std::string container_path()
	{
		if (have_last && c.coin(45))
		{
			PtrErr e;
			Val *v = ptr_eval(ref.v, last_container, e);
			if (v && (v->k == Val::Arr || v->k == Val::Obj))
			{
				f_locality = true;
				return last_container;
			}
		}
		std::vector<std::string> paths, conts;
		ptr_all_paths(ref.v, "", paths);
		for (auto &p : paths)
		{
			PtrErr e;
			Val *v = ptr_eval(ref.v, p, e);
			if (v && (v->k == Val::Arr || v->k == Val::Obj))
				conts.push_back(p);
		}
		if (conts.empty())
			return "";
		return conts[c.pickn(conts.size())];
	}
	// a location for add: new member, existing member, array index <= len, '-'
	std::string add_target(bool want_valid)
	{
		std::string cp = container_path();
		PtrErr e;
		Val *cv = ptr_eval(ref.v, cp, e);
		if (!cv || (cv->k != Val::Arr && cv->k != Val::Obj))
			return want_valid ? "" : "/nope/x";
		if (cv->k == Val::Obj)
		{
			if (!want_valid)
				return cp + "/" + ptr_escape(KEYS[c.pickn(NKEYS)]) + "/deeper/x";
			std::string k = KEYS[c.pickn(NKEYS)];
			return cp + "/" + ptr_escape(k);
		}
		size_t len = cv->a.size();
		if (!want_valid)
		{
			switch (c.pickn(5))
			{
			case 0: return cp + "/" + str(len + 1 + c.pickn(3));
			case 1: return cp + "/0" + str(c.pickn(3));
			case 2: return cp + "/";
			case 3: return cp + "/x";
			default: return cp + "/-/y";
			}
		}
		switch (c.pick({3, 3, 2}))
		{
		case 0: f_array_end = true; return cp + "/-";
		case 1: f_array_end = true; return cp + "/" + str(len);
		default: return cp + "/" + str(len ? c.pickn(len) : 0);
		}
	}
	std::string missing_path()
	{
		switch (c.pickn(8))
		{
		case 6: return container_path() + (c.coin(50) ? "/18446744073709551616" : "/1844674407370955161" + str(c.range(6, 9)));
		case 7: return container_path() + "/" + std::string(c.range(20, 30), '9');
		case 0: return existing_path() + "/nope";
		case 1: return "/" + ptr_escape(std::string(KEYS[c.pickn(NKEYS)])) + "zz";
		case 2: return existing_path() + "/99";
		case 3: return "nolead";
		case 4: return existing_path() + "/~2";
		default: return existing_path() + "/-";
		}
	}
	void note_path(const std::string &p)
	{
		if (p.find('~') != std::string::npos)
			f_escaped = true;
		for (auto &w : written)
			if (!w.empty() && p.size() > w.size() && p.compare(0, w.size(), w) == 0 && p[w.size()] == '/')
				f_dependent = true;
	}
	Val gen_op()
	{
		bool valid = !c.coin(18);
		if (!ref.present)
		{
			Val o = mkop("add", "");
			o.set("value", small_value(c));
			if (o.find("value")->k == Val::Null)
				o.set("value", Val::arr());
			return o;
		}
		switch (c.pick({25, 15, 15, 15, 15, 15}))
		{
		case 0: {
			std::string p;
			if (valid && have_last && !last_container.empty() && c.coin(20))
			{
				// overwrite an ancestor of the place the previous add went to (or the whole document)
				std::vector<size_t> cuts{0};
				for (size_t i = 1; i < last_container.size(); i++)
					if (last_container[i] == '/')
						cuts.push_back(i);
				p = last_container.substr(0, cuts[c.pickn(cuts.size())]);
				if (c.coin(50))
					p = last_container;
				f_locality = true;
				stale_possible = true;
			}
			else if (valid && have_last && stale_possible && c.coin(60))
			{
				// once more into the place of the add before last, whatever has happened to it since (the reference
				// evaluation decides whether that still exists)
				p = last_container + "/" + ptr_escape(KEYS[c.pickn(NKEYS)]);
				f_locality = true;
			}
			else
			{
				p = add_target(valid);
				size_t sl = p.rfind('/');
				if (valid && sl != std::string::npos)
				{
					last_container = p.substr(0, sl);
					have_last = true;
				}
			}
			Val o = mkop("add", p);
			Val v = small_value(c);
			if (p.empty() && v.k == Val::Null)
				v = Val::obj();
			o.set("value", v);
			return o;
		}
		case 1: {
			std::string p = valid ? existing_path() : missing_path();
			if (p.empty() && !c.coin(10))
				p = existing_path();
			return mkop("remove", p);
		}
		case 2: {
			std::string p = valid ? existing_path() : missing_path();
			Val o = mkop("replace", p);
			Val v = small_value(c);
			if (p.empty() && v.k == Val::Null)
				v = Val::arr();
			o.set("value", v);
			return o;
		}
		case 3: {
			std::string from = valid ? existing_path() : missing_path();
			std::string p;
			switch (c.pick({4, 2, 2, 1, 1}))
			{
			case 0: p = add_target(true); break;
			case 1: p = from; break;                  // onto itself
			case 2: p = from + "x"; break;            // string prefix but not a location prefix
			case 3: p = from + "/" + ptr_escape(KEYS[c.pickn(NKEYS)]); break; // into its own child (must fail)
			default: p = existing_path(); break;
			}
			if (from.empty())
				from = existing_path();
			Val o = mkop("move", p);
			o.set("from", Val::str(from));
			if (p.empty())
				o.set("path", Val::str(add_target(true)));
			return o;
		}
		case 4: {
			std::string from = valid ? existing_path() : missing_path();
			std::string p;
			switch (c.pick({4, 2, 2, 2}))
			{
			case 0: p = add_target(true); break;
			case 1: p = from; break;
			case 2: p = from + "x"; break;
			default: p = from + "/" + ptr_escape(KEYS[c.pickn(NKEYS)]); break; // copy into a child is allowed
			}
			Val o = mkop("copy", p);
			o.set("from", Val::str(from));
			if (p.empty())
				o.set("path", Val::str(add_target(true)));
			return o;
		}
		default: {
			std::string p = valid ? existing_path() : missing_path();
			Val o = mkop("test", p);
			PtrErr e;
			Val *t = ptr_eval(ref.v, p, e);
			if (t && c.coin(70))
				o.set("value", *t);
			else
				o.set("value", small_value(c));
			return o;
		}
		}
	}
};

// corrupt one operation of a patch
static void corrupt(Choices &c, Val &patch)
{
	if (patch.k != Val::Arr || patch.a.empty() || c.coin(5))
	{
		switch (c.pickn(4))
		{
		case 0: patch = Val::obj(); break;
		case 1: patch = Val::null(); break;
		case 2: patch = Val::str("[]"); break;
		default: patch = Val::i64(3); break;
		}
		return;
	}
	Val &op = patch.a[c.pickn(patch.a.size())];
	static const char *fields[] = {"op", "path", "from", "value"};
	const char *f = fields[c.pickn(4)];
	switch (c.pick({4, 6, 3, 3, 2}))
	{
	case 0: op.erase(f); break;
	case 1: {
		Val bad;
		switch (c.pickn(7))
		{
		case 0: bad = Val::null(); break;
		case 1: bad = Val::i64(c.irange(-2, 7)); break;
		case 2: bad = Val::arr(); break;
		case 3: bad = Val::obj(); break;
		case 4: bad = Val::boolean(true); break;
		case 5: bad = Val::dbl(1.5); break;
		default: bad = Val::str(""); break;
		}
		if (op.k == Val::Obj)
			op.set(f, bad);
		break;
	}
	case 2: {
		static const char *names[] = {"Add", "ADD", "", "delete", "addx", "tes", "mov", " add", "copy ", "removee", "null"};
		if (op.k == Val::Obj)
			op.set("op", Val::str(names[c.pickn(11)]));
		break;
	}
	case 3: {
		switch (c.pickn(5))
		{
		case 0: op = Val::null(); break;
		case 1: op = Val::i64(1); break;
		case 2: op = Val::str("add"); break;
		case 3: op = Val::arr(); break;
		default: op = Val::obj(); break;
		}
		break;
	}
	default:
		if (op.k == Val::Obj)
			op.set("extra", Val::arr()); // unknown members are ignored
		break;
	}
}

static void scribble(json_object *j, int salt)
{
	if (!j)
		return;
	switch (json_object_get_type(j))
	{
	case json_type_string: json_object_set_string(j, "scribbled-over-by-the-independence-probe"); break;
	case json_type_int: json_object_set_int64(j, 424242 + salt); break;
	case json_type_double: json_object_set_double(j, 0.125); break;
	case json_type_boolean: json_object_set_boolean(j, !json_object_get_boolean(j)); break;
	case json_type_array: {
		size_t n = json_object_array_length(j);
		for (size_t i = 0; i < n; i++)
			scribble(json_object_array_get_idx(j, i), salt + 1);
		json_object_array_add(j, json_object_new_string("added"));
		break;
	}
	case json_type_object: {
		json_object_iterator it = json_object_iter_begin(j), e = json_object_iter_end(j);
		while (!json_object_iter_equal(&it, &e))
		{
			scribble(json_object_iter_peek_value(&it), salt + 1);
			json_object_iter_next(&it);
		}
		json_object_object_add(j, "zz-added", json_object_new_int(1));
		break;
	}
	default: break;
	}
}

// order of members is not significant for a patched document (move re-adds a member)
static bool same_doc(const Val &exp, const Val &got, std::string &why, const std::string &path = "$")
{
	if (exp.k != got.k)
	{
		why = path + ": kind differs, expected " + show(exp, 80) + " got " + show(got, 80);
		return false;
	}
	if (exp.k == Val::Arr)
	{
		if (exp.a.size() != got.a.size())
		{
			why = path + ": array length " + str(exp.a.size()) + " vs " + str(got.a.size()) + ": expected " + show(exp, 150) + " got " + show(got, 150);
			return false;
		}
		for (size_t i = 0; i < exp.a.size(); i++)
			if (!same_doc(exp.a[i], got.a[i], why, path + "[" + str(i) + "]"))
				return false;
		return true;
	}
	if (exp.k == Val::Obj)
	{
		if (exp.o.size() != got.o.size())
		{
			why = path + ": member count differs: expected " + show(exp, 150) + " got " + show(got, 150);
			return false;
		}
		for (auto &kv : exp.o)
		{
			const Val *o = got.find(kv.first);
			if (!o)
			{
				why = path + ": member " + quote(kv.first, 40) + " missing: expected " + show(exp, 150) + " got " + show(got, 150);
				return false;
			}
			if (!same_doc(kv.second, *o, why, path + "." + quote(kv.first, 30)))
				return false;
		}
		return true;
	}
	return same_val(exp, got, why, DBL_BITS, path);
}

static void check(Ctx &ctx, const Val &doc, const Val &patch, bool copy_form, uint64_t salt)
{
	PatchDoc ref;
	ref.v = doc;
	PatchOutcome want = patch_apply(ref, patch);
	if (want.undefined)
	{
		// neither the RFC nor json_patch.h says what the result is: no comparison - but the call still has to be
		// memory-safe, leak-free (the case's leak scope) and must leave the patch document alone
		ctx.label("root_null_or_absent_safety_only");
		json_object *jd = build(doc), *jp = build(patch);
		Val pb = dump(jp);
		json_object *b = copy_form ? nullptr : jd;
		struct json_patch_error pe;
		memset(&pe, 0x5a, sizeof pe);
		(void)json_patch_apply(copy_form ? jd : nullptr, jp, &b, &pe);
		Val pa = dump(jp);
		std::string w;
		bool same = same_val(pb, pa, w, DBL_BITS);
		json_object_put(jp);
		if (copy_form)
			json_object_put(jd);
		json_object_put(b);
		if (!same)
			ctx.fail("patch-modified", "the patch document was modified: " + w);
		return;
	}
	json_object *jdoc = build(doc), *jpatch = build(patch);
	Val patch_before = dump(jpatch);
	json_object *base = copy_form ? nullptr : jdoc;
	struct json_patch_error perr;
	memset(&perr, 0x5a, sizeof perr);
	int rc = json_patch_apply(copy_form ? jdoc : nullptr, jpatch, &base, &perr);
	std::string why;
	std::string desc = std::string(copy_form ? "[copy_from form] " : "[in-place form] ") + "doc=" + show(doc, 300) + " patch=" + show(patch, 600);
	auto cleanup = [&]() {
		json_object_put(jpatch);
		if (copy_form)
		{
			json_object_put(jdoc);
			json_object_put(base);
		}
		else
			json_object_put(base);
	};
	if (want.ok)
	{
		if (rc != 0)
		{
			std::string m = "json_patch_apply failed (rc " + str(rc) + ", op #" + str(perr.patch_failure_idx) + ", " + (perr.errmsg ? perr.errmsg : "") +
			                ") but RFC 6902 evaluation succeeds with " + show(ref.v, 300) + " | " + desc;
			cleanup();
			ctx.fail("apply-fails", m);
		}
		Val got = dump(base);
		Val expect = ref.present ? ref.v : Val::null();
		if (!same_doc(expect, got, why))
		{
			cleanup();
			ctx.fail("wrong-result", "patched document differs from RFC 6902 evaluation: " + why + " | " + desc);
		}
	}
	else
	{
		if (rc == 0)
		{
			Val got = dump(base);
			cleanup();
			ctx.fail("apply-succeeds", "json_patch_apply succeeded (result " + show(got, 200) + ") but RFC 6902 evaluation fails at op #" + str(want.fail_idx) + " (" +
			                               want.why + ") | " + desc);
		}
		if (rc > 0)
		{
			cleanup();
			ctx.fail("retval", "positive return value");
		}
		if (want.fail_idx != (size_t)-1 && perr.patch_failure_idx != want.fail_idx)
		{
			size_t gi = perr.patch_failure_idx;
			cleanup();
			ctx.fail("failure-index", "failure reported at op #" + str(gi) + " but the first operation RFC 6902 fails is #" + str(want.fail_idx) + " (" + want.why +
			                              ") | " + desc);
		}
	}
	// the patch document is never modified
	Val patch_after = dump(jpatch);
	if (!same_val(patch_before, patch_after, why, DBL_BITS))
	{
		cleanup();
		ctx.fail("patch-modified", "the patch document was modified by applying it: " + why + " | " + desc);
	}
	if (copy_form)
	{
		Val src_after = dump(jdoc);
		if (!same_val(doc, src_after, why, DBL_BITS))
		{
			cleanup();
			ctx.fail("source-modified", "copy_from document was modified: " + why + " | " + desc);
		}
	}
	// independence: scribble over the whole result, the patch (and the copy_from source) must not change
	if (rc == 0 && base)
	{
		// no node may sit at two locations of the result (a "copy" that shares its source would change with it)
		{
			std::set<json_object *> seen;
			std::function<json_object *(json_object *)> dup = [&](json_object *n) -> json_object * {
				if (!n)
					return nullptr;
				if (!seen.insert(n).second)
					return n;
				if (json_object_get_type(n) == json_type_array)
					for (size_t i = 0; i < json_object_array_length(n); i++)
						if (json_object *d = dup(json_object_array_get_idx(n, i)))
							return d;
				if (json_object_get_type(n) == json_type_object)
				{
					json_object_object_foreach(n, k, v)
					{
						(void)k;
						if (json_object *d = dup(v))
							return d;
					}
				}
				return nullptr;
			};
			if (json_object *d = dup(base))
			{
				std::string what = json_object_to_json_string(d);
				cleanup();
				ctx.fail("value-shared-within-result", "one node (" + quote(what, 60) + ") sits at two locations of the patched document: changing one location would change the other | " + desc);
			}
		}
		scribble(base, (int)(salt & 3));
		patch_after = dump(jpatch);
		if (!same_val(patch_before, patch_after, why, DBL_BITS))
		{
			cleanup();
			ctx.fail("value-shared-with-patch", "mutating the patched document in place changed the patch document (added values are not independent): " + why + " | " + desc);
		}
		if (copy_form)
		{
			Val src_after = dump(jdoc);
			if (!same_val(doc, src_after, why, DBL_BITS))
			{
				cleanup();
				ctx.fail("value-shared-with-source", "mutating the patched copy changed the copy_from document: " + why);
			}
		}
	}
	cleanup();
}
} // namespace

void run_case(Choices &c, Ctx &ctx)
{
	LeakScope leak;
	if (ctx.mode == "parsed")
	{
		std::string all;
		bool copy_form = c.byte() & 1;
		while (c.pos < c.bp->size())
			all += (char)c.byte();
		size_t z = all.find('\0');
		if (z == std::string::npos)
			return;
		std::string t1 = all.substr(0, z), t2 = all.substr(z + 1);
		if (t2.find('\0') != std::string::npos)
			t2 = t2.substr(0, t2.find('\0'));
		json_object *d = json_tokener_parse(t1.c_str()), *p = json_tokener_parse(t2.c_str());
		if (!d || !p)
		{
			json_object_put(d);
			json_object_put(p);
			return;
		}
		Val vd = dump(d), vp = dump(p);
		json_object_put(d);
		json_object_put(p);
		ctx.note("doc " + quote(t1) + " patch " + quote(t2));
		check(ctx, vd, vp, copy_form, 0);
		ctx.nontrivial(hash_str(all));
		leak.check(ctx);
		return;
	}
	// target document
	TreeGenOpts o;
	o.max_depth = 3;
	o.max_nodes = 3 + c.len(16);
	o.any_bytes = false;
	o.retained_text = false;
	for (size_t i = 0; i < NKEYS; i++)
		o.key_pool.push_back(KEYS[i]);
	TreeGen tg(c, o);
	Val doc = tg.root();
	if (doc.k == Val::Null)
		doc = Val::obj();
	Gen g(c, ctx);
	g.ref.v = doc;
	Val patch = Val::arr();
	size_t nops = 1 + c.len(8);
	bool failed = false;
	for (size_t i = 0; i < nops; i++)
	{
		SpanGuard sg(c);
		Val op = g.gen_op();
		std::string p;
		op_str(op, "path", p);
		g.note_path(p);
		std::string fr;
		if (op_str(op, "from", fr))
			g.note_path(fr);
		patch.a.push_back(op);
		if (!failed)
		{
			// keep the generator's view of the evolving document
			std::string why;
			PatchDoc trial = g.ref;
			if ((!trial.present || trial.v.k == Val::Null) && !(p.empty() && op.find("op")->s == "add"))
			{
				patch.a.pop_back();
				break;
			}
			if (patch_one(trial, op, why))
			{
				g.ref = trial;
				std::string nm;
				op_str(op, "op", nm);
				if (nm != "test" && nm != "remove")
					g.written.push_back(p);
			}
			else
			{
				failed = true;
				g.f_fail = true;
				// a couple of unreachable operations after the failing one
				nops = std::min(nops, i + 1 + c.pickn(3));
			}
		}
	}
	if (ctx.mode == "malformed")
	{
		size_t k = 1 + c.pickn(2);
		for (size_t i = 0; i < k; i++)
			corrupt(c, patch);
		ctx.label("corrupted");
	}
	bool copy_form = c.coin(40);
	if (g.f_escaped)
		ctx.label("escaped_token");
	if (g.f_array_end)
		ctx.label("array_end");
	if (g.f_locality)
		ctx.label("consecutive_ops_in_one_place");
	if (g.f_dependent)
		ctx.label("later_op_through_written_location");
	if (g.f_fail)
		ctx.label("failing_op");
	ctx.note(std::string(copy_form ? "copy_from form" : "in-place form") + "\ndoc=" + show(doc, 500) + "\npatch=" + show(patch, 1500));
	check(ctx, doc, patch, copy_form, c.range(0, 255));
	if ((patch.k == Val::Arr && patch.a.size() >= 2 && g.f_dependent) || g.f_escaped || g.f_array_end || ctx.mode == "malformed")
		ctx.nontrivial(hash_val(doc, hash_val(patch)));
	leak.check(ctx);
}
#include "engine_main.hpp"
