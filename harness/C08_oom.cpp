// C08 – one allocation failure gives a clean failure: no leak, crash or corruption.
// Fault enumeration: every workload is run fault-free once (counting its allocation calls), then once
// per allocation index k with exactly that call failing; plus sampled double faults.
#include "common.hpp"
#include "refjson.hpp"
#include "treegen.hpp"
#include "textgen.hpp"
#include "parseutil.hpp"
#include <sys/mman.h>
#include <unistd.h>
using namespace vf;

const char *HARNESS_ID = "C08";
std::vector<ModeInfo> harness_modes()
{
	return {{"literal", 0, "replay: workload kind byte, flags byte, then the JSON text the workload operates on"},
	        {"faults", 0, "generated workloads (parse, build, object add incl. resize, array ops incl. growth, set_string, deep copy, serialise, pointer set/getf, patch, fd read, double format) x every allocation index"}};
}

namespace {
struct Res {
	bool failed = false; // reported failure through its channel
	std::string out;     // canonical result (dump / text) when not failed, channel description when failed
};

// builds a tree through the API, coping with NULL / negative returns; nullptr + failed=true on any failure (nothing leaked)
static json_object *build_checked(const Val &v, bool &failed)
{
	switch (v.k)
	{
	case Val::Null: return nullptr;
	case Val::Arr: {
		json_object *a = json_object_new_array();
		if (!a)
		{
			failed = true;
			return nullptr;
		}
		for (auto &x : v.a)
		{
			json_object *ch = build_checked(x, failed);
			if (failed)
			{
				json_object_put(a);
				return nullptr;
			}
			if (json_object_array_add(a, ch) != 0)
			{
				json_object_put(ch);
				json_object_put(a);
				failed = true;
				return nullptr;
			}
		}
		return a;
	}
	case Val::Obj: {
		json_object *o = json_object_new_object();
		if (!o)
		{
			failed = true;
			return nullptr;
		}
		for (auto &kv : v.o)
		{
			json_object *ch = build_checked(kv.second, failed);
			if (failed)
			{
				json_object_put(o);
				return nullptr;
			}
			if (json_object_object_add(o, kv.first.c_str(), ch) != 0)
			{
				json_object_put(ch);
				json_object_put(o);
				failed = true;
				return nullptr;
			}
		}
		return o;
	}
	default: {
		json_object *j = build(v);
		if (!j)
			failed = true;
		return j;
	}
	}
}
static std::string canon(json_object *j)
{
	return show(dump(j), 100000);
}

struct Work {
	int kind;
	std::string text, text2, key, path;
	Val tree, tree2;
	int flags = 0;
	size_t n = 0, n2 = 0;
	std::vector<size_t> cuts;
	const char *name() const
	{
		static const char *n[] = {"parse", "parse_chunked", "build", "object_add", "array_ops", "set_string", "deep_copy", "serialize",
		                          "reserialize", "pointer_set", "pointer_getf", "patch_inplace", "patch_copy_from", "from_fd", "double_format", "tokener_new", "parse_verbose",
		                          "printbuf", "to_fd", "array_shrink", "constructors", "object_add_ex"};
		return n[kind];
	}
};
enum { W_PARSE, W_PARSE_CHUNKED, W_BUILD, W_OBJ_ADD, W_ARR, W_SETSTR, W_COPY, W_SER, W_RESER, W_PTRSET, W_GETF, W_PATCH, W_PATCHCOPY, W_FROMFD, W_DBLFMT, W_TOKNEW, W_PARSEV, W_PRINTBUF, W_TOFD, W_SHRINK, W_CTORS, W_ADDEX, W_NKINDS };

// One execution of the workload with allocation call k (and k2) failing; k = -1: fault-free.
// Everything created here is released before returning (the caller checks the live-allocation delta).
static Res execute(Ctx &ctx, const Work &w, long k, long k2, long &ncalls)
{
	Res r;
	auto arm = [&]() { verif_alloc_arm(k, k2); };
	auto disarm = [&]() { ncalls = verif_alloc_disarm(); };
	switch (w.kind)
	{
	case W_PARSE:
	case W_PARSE_CHUNKED: {
		json_tokener *tok = json_tokener_new();
		HeapCopy hc(w.text, true);
		json_object *o = nullptr;
		arm();
		if (w.kind == W_PARSE)
			o = json_tokener_parse_ex(tok, hc.p, (int)hc.n);
		else
		{
			size_t s = 0;
			std::vector<size_t> cuts = w.cuts;
			cuts.push_back(hc.n);
			for (size_t e : cuts)
			{
				if (e <= s || e > hc.n)
					continue;
				o = json_tokener_parse_ex(tok, hc.p + s, (int)(e - s));
				if (json_tokener_get_error(tok) != json_tokener_continue)
					break;
				s = e;
			}
		}
		disarm();
		int err = (int)json_tokener_get_error(tok);
		// failure channel of the parser: no value and an error status (success / "continue" are not failures)
		if (err != json_tokener_success && err != json_tokener_continue && k >= 0)
		{
			r.failed = true;
			r.out = std::string("NULL with status ") + json_tokener_error_desc((json_tokener_error)err);
			if (o)
				ctx.fail("value-with-error", "a value was returned together with an error status");
		}
		else
			r.out = std::string(json_tokener_error_desc((json_tokener_error)err)) + " " + canon(o);
		json_object_put(o);
		if (k >= 0)
		{
			// whatever the injected failure left behind, a reset tokener behaves like a new one
			json_tokener_reset(tok);
			json_object *a = json_tokener_parse_ex(tok, hc.p, (int)hc.n);
			std::string ra = std::string(json_tokener_error_desc(json_tokener_get_error(tok))) + " @" + str(json_tokener_get_parse_end(tok)) + " " + canon(a);
			json_object_put(a);
			json_tokener *fresh = json_tokener_new();
			json_object *b = json_tokener_parse_ex(fresh, hc.p, (int)hc.n);
			std::string rb = std::string(json_tokener_error_desc(json_tokener_get_error(fresh))) + " @" + str(json_tokener_get_parse_end(fresh)) + " " + canon(b);
			json_object_put(b);
			json_tokener_free(fresh);
			if (ra != rb)
			{
				json_tokener_free(tok);
				ctx.fail("reset-after-fault", "after a parse with allocation call " + str(k) + " failing and json_tokener_reset, the tokener gives " + quote(ra, 200) + ", a new tokener " + quote(rb, 200));
			}
		}
		json_tokener_free(tok);
		break;
	}
	case W_PARSEV: {
		enum json_tokener_error e = json_tokener_success;
		arm();
		json_object *o = json_tokener_parse_verbose(w.text.c_str(), &e);
		disarm();
		if (e != json_tokener_success && e != json_tokener_continue && k >= 0)
		{
			r.failed = true;
			r.out = std::string("NULL with status ") + json_tokener_error_desc(e);
			if (o)
				ctx.fail("value-with-error", "json_tokener_parse_verbose returned a value with the out-of-memory status");
		}
		else
			r.out = std::string(json_tokener_error_desc(e)) + " " + canon(o);
		json_object_put(o);
		break;
	}
	case W_TOKNEW: {
		arm();
		json_tokener *tok = json_tokener_new_ex((int)w.n);
		disarm();
		if (!tok)
		{
			r.failed = true;
			r.out = "NULL";
		}
		else
		{
			HeapCopy hc(w.text, true);
			json_object *o = json_tokener_parse_ex(tok, hc.p, (int)hc.n);
			r.out = canon(o);
			json_object_put(o);
			json_tokener_free(tok);
		}
		break;
	}
	case W_BUILD: {
		bool failed = false;
		arm();
		json_object *j = build_checked(w.tree, failed);
		disarm();
		if (failed)
		{
			r.failed = true;
			r.out = "constructor/add reported failure";
		}
		else
			r.out = canon(j);
		json_object_put(j);
		break;
	}
	case W_OBJ_ADD: {
		// the caller owns obj and val; a failed add must leave both intact
		json_object *obj = build(w.tree);
		json_object *val = build(w.tree2);
		std::string before = canon(obj), vbefore = canon(val);
		arm();
		int rc = json_object_object_add(obj, w.key.c_str(), val);
		disarm();
		if (rc != 0)
		{
			r.failed = true;
			r.out = "object_add returned " + str(rc);
			if (canon(obj) != before)
				ctx.fail("altered", "failed object_add changed the object: " + canon(obj) + " was " + before);
			if (canon(val) != vbefore)
				ctx.fail("altered", "failed object_add changed the value");
			json_object_put(val); // still ours
		}
		else
			r.out = canon(obj);
		json_object_put(obj);
		break;
	}
	case W_ARR: {
		json_object *arr = build(w.tree);
		if (w.flags >= 3)
			json_object_array_shrink(arr, 0); // capacity == length, as in every parsed array: even an overwrite may reallocate
		std::string before = canon(arr);
		json_object *val = build(w.tree2);
		arm();
		int rc;
		switch (w.flags % 3)
		{
		case 0: rc = json_object_array_add(arr, val); break;
		case 1: rc = json_object_array_put_idx(arr, w.n, val); break;
		default: rc = json_object_array_insert_idx(arr, w.n, val); break;
		}
		disarm();
		if (rc != 0)
		{
			r.failed = true;
			r.out = "array op returned " + str(rc);
			if (canon(arr) != before)
				ctx.fail("altered", "failed array operation changed the array: " + canon(arr) + " was " + before);
			json_object_put(val);
		}
		else
			r.out = canon(arr);
		// the array must remain usable after a failed growth: append without faults
		if (rc != 0)
		{
			for (int i = 0; i < 40; i++)
				json_object_array_add(arr, json_object_new_int(i));
			if (json_object_array_length(arr) != dump(arr).a.size())
				ctx.fail("altered", "array unusable after a failed operation");
		}
		json_object_put(arr);
		break;
	}
	case W_SETSTR: {
		json_object *s = json_object_new_string_len(w.text.data(), (int)w.text.size());
		if (w.n2)
			json_object_set_string_len(s, w.text2.data(), (int)std::min(w.n2, w.text2.size())); // maybe already in separate storage
		std::string before(json_object_get_string(s), (size_t)json_object_get_string_len(s));
		arm();
		int rc = json_object_set_string_len(s, w.text2.data(), (int)w.text2.size());
		disarm();
		std::string now(json_object_get_string(s), (size_t)json_object_get_string_len(s));
		if (rc != 1)
		{
			r.failed = true;
			r.out = "set_string_len returned 0";
			if (now != before)
				ctx.fail("altered", "failed set_string_len changed the contents");
		}
		else
			r.out = quote(now, 10000);
		json_object_put(s);
		break;
	}
	case W_COPY: {
		json_object *src = w.text.empty() ? build(w.tree) : json_tokener_parse(w.text.c_str());
		if (!src)
		{
			r.out = "null source";
			ncalls = 0;
			break;
		}
		std::string before = canon(src);
		json_object *dst = nullptr;
		arm();
		int rc = json_object_deep_copy(src, &dst, nullptr);
		disarm();
		if (rc != 0)
		{
			r.failed = true;
			r.out = "deep_copy returned " + str(rc);
			if (dst)
				ctx.fail("partial-result", "failed deep_copy left *dst set");
		}
		else
		{
			r.out = canon(dst) + " " + std::string(json_object_to_json_string_ext(dst, 0));
		}
		if (canon(src) != before)
			ctx.fail("altered", "deep_copy changed its source");
		json_object_put(dst);
		json_object_put(src);
		break;
	}
	case W_SER:
	case W_RESER: {
		json_object *j = w.text.empty() ? build(w.tree) : json_tokener_parse(w.text.c_str());
		if (!j)
		{
			r.out = "null";
			ncalls = 0;
			break;
		}
		std::string before = canon(j);
		if (w.kind == W_RESER)
			(void)json_object_to_json_string_ext(j, JSON_C_TO_STRING_PLAIN); // cached buffer exists, possibly too small for the next format
		size_t len = 12345;
		arm();
		const char *t = json_object_to_json_string_length(j, w.flags, &len);
		disarm();
		if (!t)
		{
			r.failed = true;
			r.out = "NULL text";
		}
		else
		{
			r.out = std::string(t, strlen(t));
			if (len != strlen(t))
				ctx.fail("length", "reported length " + str(len) + " != strlen " + str(strlen(t)) + " after an allocation fault");
		}
		if (canon(j) != before)
			ctx.fail("altered", "serialisation under an allocation fault changed the tree");
		// and the tree must still serialise correctly afterwards
		const char *t2 = json_object_to_json_string_ext(j, w.flags);
		if (!t2)
			ctx.fail("altered", "tree no longer serialises after a faulted serialisation");
		json_object_put(j);
		break;
	}
	case W_PTRSET: {
		json_object *root = build(w.tree);
		json_object *val = build(w.tree2);
		std::string before = canon(root);
		json_object *obj = root;
		arm();
		int rc = w.flags & 1 ? json_pointer_setf(&obj, val, "%s", w.path.c_str()) : json_pointer_set(&obj, w.path.c_str(), val);
		disarm();
		if (rc != 0)
		{
			r.failed = true;
			r.out = "pointer_set returned " + str(rc);
			if (obj != root || canon(root) != before)
				ctx.fail("altered", "failed json_pointer_set changed the tree");
			json_object_put(val);
		}
		else
			r.out = canon(obj);
		json_object_put(obj);
		break;
	}
	case W_GETF: {
		json_object *root = build(w.tree);
		json_object *res = nullptr;
		arm();
		int rc = w.flags & 1 ? json_pointer_getf(root, &res, "%s", w.path.c_str()) : json_pointer_get(root, w.path.c_str(), &res);
		disarm();
		if (rc != 0)
		{
			r.failed = true;
			r.out = "pointer_get returned " + str(rc) + " errno " + str(errno);
		}
		else
			r.out = canon(res);
		json_object_put(root);
		break;
	}
	case W_PATCH:
	case W_PATCHCOPY: {
		json_object *doc = build(w.tree);
		json_object *patch = json_tokener_parse(w.text.c_str());
		std::string pbefore = canon(patch), dbefore = canon(doc);
		json_object *base = w.kind == W_PATCH ? doc : nullptr;
		struct json_patch_error pe;
		arm();
		int rc = json_patch_apply(w.kind == W_PATCH ? nullptr : doc, patch, &base, &pe);
		disarm();
		if (rc != 0)
		{
			r.failed = true;
			r.out = "patch returned " + str(rc);
		}
		else
			r.out = canon(base);
		if (canon(patch) != pbefore)
			ctx.fail("altered", "json_patch_apply under an allocation fault changed the patch document");
		if (w.kind == W_PATCHCOPY)
		{
			if (canon(doc) != dbefore)
				ctx.fail("altered", "json_patch_apply under an allocation fault changed the copy_from document");
			json_object_put(doc);
		}
		json_object_put(base);
		json_object_put(patch);
		break;
	}
	case W_FROMFD: {
		int fd = memfd_create("c08", 0);
		if (fd < 0 || write(fd, w.text.data(), w.text.size()) != (ssize_t)w.text.size() || lseek(fd, 0, SEEK_SET) != 0)
		{
			if (fd >= 0)
				close(fd);
			r.out = "no fd";
			ncalls = 0;
			break;
		}
		arm();
		json_object *o = json_object_from_fd(fd);
		disarm();
		close(fd);
		if (!o)
		{
			r.failed = true;
			r.out = "NULL";
		}
		else
			r.out = canon(o);
		json_object_put(o);
		break;
	}
	case W_PRINTBUF: {
		// direct print-buffer use: a failed operation returns -1 and leaves the contents as they were
		arm();
		printbuf *pb = printbuf_new();
		if (!pb)
		{
			disarm();
			r.failed = true;
			r.out = "printbuf_new returned NULL";
			break;
		}
		std::string model;
		bool any_fail = false;
		for (size_t i = 0; i < w.n; i++)
		{
			std::string piece((size_t)(7 + 13 * i) % 90 + (i == 2 ? w.n2 : 0), (char)('a' + i));
			int rc;
			if (i % 3 == 2)
				rc = sprintbuf(pb, "%s|%d", piece.c_str(), (int)i);
			else if (i % 3 == 1)
				rc = printbuf_memset(pb, -1, 'z', (int)piece.size()) == 0 ? (int)piece.size() : -1;
			else
				rc = printbuf_memappend(pb, piece.data(), (int)piece.size());
			if (rc < 0)
				any_fail = true;
			else if (i % 3 == 2)
				model += piece + "|" + str(i);
			else if (i % 3 == 1)
				model += std::string(piece.size(), 'z');
			else
				model += piece;
			if ((size_t)pb->bpos != model.size() || memcmp(pb->buf, model.data(), model.size()) != 0)
			{
				disarm();
				ctx.fail("altered", "print buffer contents differ from the model after a " + std::string(rc < 0 ? "failed" : "successful") + " operation under an allocation fault");
			}
		}
		disarm();
		r.failed = any_fail;
		r.out = any_fail ? "a printbuf operation returned -1" : model;
		printbuf_free(pb);
		break;
	}
	case W_TOFD: {
		json_object *j = w.text.empty() ? build(w.tree) : json_tokener_parse(w.text.c_str());
		int fd = memfd_create("c08w", 0);
		if (!j || fd < 0)
		{
			json_object_put(j);
			if (fd >= 0)
				close(fd);
			r.out = "skip";
			ncalls = 0;
			break;
		}
		arm();
		int rc = json_object_to_fd(fd, j, w.flags);
		disarm();
		std::string got;
		char buf[4096];
		lseek(fd, 0, SEEK_SET);
		ssize_t n;
		while ((n = read(fd, buf, sizeof buf)) > 0)
			got.append(buf, (size_t)n);
		close(fd);
		if (rc != 0)
		{
			r.failed = true;
			r.out = "to_fd returned " + str(rc);
			if (!got.empty())
				ctx.fail("partial-result", "json_object_to_fd failed under an allocation fault but wrote " + str(got.size()) + " bytes");
		}
		else
			r.out = got;
		json_object_put(j);
		break;
	}
	case W_SHRINK: {
		json_object *arr = build(w.tree);
		std::string before = canon(arr);
		arm();
		int rc = json_object_array_shrink(arr, (int)w.n);
		disarm();
		if (rc != 0)
		{
			r.failed = true;
			r.out = "shrink returned " + str(rc);
		}
		else
			r.out = "ok";
		if (canon(arr) != before)
			ctx.fail("altered", "array_shrink under an allocation fault changed the contents");
		for (int i = 0; i < 5; i++)
			json_object_array_add(arr, json_object_new_int(i));
		json_object_put(arr);
		break;
	}
	case W_CTORS: {
		// every constructor: NULL on failure, nothing left behind
		arm();
		json_object *o[8];
		o[0] = json_object_new_object();
		o[1] = json_object_new_array_ext((int)w.n);
		o[2] = json_object_new_string_len(w.text.data(), (int)w.text.size());
		o[3] = json_object_new_double_s(1.5, "1.50");
		o[4] = json_object_new_int64(-5);
		o[5] = json_object_new_uint64(5);
		o[6] = json_object_new_boolean(1);
		o[7] = json_object_new_double(2.25);
		disarm();
		bool anynull = false;
		std::string all;
		for (auto x : o)
		{
			if (!x)
				anynull = true;
			else
				all += std::string(json_object_to_json_string_ext(x, 0)) + ";";
			json_object_put(x);
		}
		r.failed = anynull;
		r.out = anynull ? "a constructor returned NULL" : all;
		break;
	}
	case W_ADDEX: {
		json_object *obj = build(w.tree);
		json_object *val = build(w.tree2);
		std::string before = canon(obj);
		static char stable_key[64];
		snprintf(stable_key, sizeof stable_key, "%s", w.key.substr(0, 60).c_str());
		arm();
		int rc = json_object_object_add_ex(obj, stable_key, val, (unsigned)w.flags);
		disarm();
		if (rc != 0)
		{
			r.failed = true;
			r.out = "object_add_ex returned " + str(rc);
			if (canon(obj) != before)
				ctx.fail("altered", "failed object_add_ex changed the object");
			json_object_put(val);
		}
		else
			r.out = canon(obj);
		json_object_put(obj);
		break;
	}
	case W_DBLFMT: {
		// half of the cases replace a format that is already installed (in the same or the other scope)
		bool preset = w.flags & 2;
		if (preset)
			json_c_set_serialization_double_format("%.2f", w.flags & 4 ? JSON_C_OPTION_THREAD : JSON_C_OPTION_GLOBAL);
		arm();
		int rc = json_c_set_serialization_double_format(w.text.c_str(), w.flags & 1 ? JSON_C_OPTION_THREAD : JSON_C_OPTION_GLOBAL);
		disarm();
		// the library must still be usable after a refused change: the next double is printed with the old, the default
		// or the new format - anything else (or a read of the released old format) is a defect
		json_object *d = json_object_new_double(1.5);
		const char *t = json_object_to_json_string(d);
		if (rc != 0)
		{
			r.failed = true;
			r.out = "set_serialization_double_format returned " + str(rc);
			char nb[64];
			snprintf(nb, sizeof nb, w.text.c_str(), 1.5);
			std::string got = t ? t : "NULL";
			if (got != "1.5" && got != "1.50" && got != nb)
			{
				json_object_put(d);
				ctx.fail("state-after-refusal", "after a refused json_c_set_serialization_double_format the double 1.5 serialises as " + quote(got));
			}
		}
		else
			r.out = t ? t : "NULL";
		json_object_put(d);
		json_c_set_serialization_double_format(nullptr, JSON_C_OPTION_GLOBAL);
		json_c_set_serialization_double_format(nullptr, JSON_C_OPTION_THREAD);
		break;
	}
	}
	return r;
}

static std::string valid_text(Choices &c, size_t nodes)
{
	TextGenOpts o;
	o.allow_nul_key = false;
	o.max_depth = 4;
	o.max_nodes = nodes;
	o.big_numbers = false;
	TextGen g(c, o);
	return g.document(c.coin(40) ? (int)c.range(1, 3) : 0);
}
static Val some_tree(Choices &c, size_t nodes, bool container)
{
	TreeGenOpts o;
	o.max_depth = 3;
	o.max_nodes = nodes;
	TreeGen g(c, o);
	Val v = container ? g.value(0, true) : g.value(0);
	return v;
}
} // namespace

void run_case(Choices &c, Ctx &ctx)
{
	Work w;
	bool literal = ctx.mode == "literal";
	if (literal)
	{
		w.kind = c.byte() % W_NKINDS;
		w.flags = c.byte();
		while (c.pos < c.bp->size())
			w.text += (char)c.byte();
		if (w.kind == W_PATCH || w.kind == W_PATCHCOPY)
		{
			w.tree = Val::obj();
			w.tree.set("foo", Val::arr());
			Val bar = Val::obj();
			bar.set("a/b", Val::i64(1));
			w.tree.set("bar", bar);
		}
	}
	else
		w.kind = (int)c.pick({14, 8, 10, 10, 10, 5, 8, 10, 5, 6, 3, 6, 4, 4, 2, 2, 3, 5, 4, 3, 3, 4});
	switch (literal ? -1 : w.kind)
	{
	case W_PARSE:
	case W_PARSE_CHUNKED:
	case W_PARSEV:
	case W_FROMFD:
		w.text = valid_text(c, 3 + c.len(25));
		if (c.coin(15))
			w.text = "{\"a\":[1,2,{\"b\":\"" + std::string(c.range(0, 200), 'x') + "\"}],\"cc\":1.5e3,\"d\":[[[]]]}";
		else if (c.coin(20))
		{
			// escapes placed around the 32/64/128-byte growth points of the tokener's scratch buffer
			static const char *esc[] = {"\\ud83d\\ude00", "\\u00e4", "\\n", "\\u20ac", "\\ud800", "\\udc00x", "\\\\"};
			std::string body(c.range(20, 36), 'f');
			for (size_t i = 0, n = 1 + c.pickn(5); i < n; i++)
				body += esc[c.pickn(7)] + std::string(c.range(0, 30), 'g');
			w.text = c.coin(50) ? "[\"" + body + "\"]" : "{\"" + body + "\":\"" + body + "\"}";
		}
		if (w.kind == W_PARSE_CHUNKED)
			for (size_t i = 0, n = 1 + c.pickn(3); i < n; i++)
				w.cuts.push_back(1 + c.pickn(w.text.size()));
		std::sort(w.cuts.begin(), w.cuts.end());
		break;
	case W_PRINTBUF:
		w.n = 2 + c.pickn(8);
		w.n2 = c.coin(50) ? c.range(100, 400) : 0; // a >=128-byte sprintbuf goes through vasprintf
		break;
	case W_TOFD:
		if (c.coin(50))
			w.text = valid_text(c, 3 + c.len(20));
		else
			w.tree = some_tree(c, 3 + c.len(20), true);
		w.flags = (int)c.range(0, 31);
		break;
	case W_SHRINK: {
		size_t n = (size_t)c.range(0, 40);
		w.tree = Val::arr();
		for (size_t i = 0; i < n; i++)
			w.tree.a.push_back(Val::i64((int64_t)i));
		w.n = c.range(0, 5);
		break;
	}
	case W_CTORS:
		w.n = c.range(0, 64);
		w.text = std::string(c.range(0, 200), 's');
		break;
	case W_ADDEX: {
		size_t n = c.coin(50) ? (size_t)c.range(0, 12) : (size_t)c.range(10, 50);
		w.tree = Val::obj();
		for (size_t i = 0; i < n; i++)
			w.tree.set("k" + str(i), Val::i64((int64_t)i));
		bool isnew = !(c.coin(25) && n);
		w.key = isnew ? "new-key-" + str(c.range(0, 9)) : "k" + str(c.pickn(n));
		w.flags = (isnew && c.coin(50) ? JSON_C_OBJECT_ADD_KEY_IS_NEW : 0) | (c.coin(50) ? JSON_C_OBJECT_ADD_CONSTANT_KEY : 0);
		w.tree2 = some_tree(c, 3, false);
		break;
	}
	case W_TOKNEW:
		w.n = c.range(1, 40);
		w.text = "[1,{\"a\":null}]";
		break;
	case W_BUILD: w.tree = some_tree(c, 3 + c.len(30), true); break;
	case W_OBJ_ADD: {
		// an object with n members (n around the resize thresholds 11, 22, 43 ...) gets one more (or a replacement)
		size_t n = c.coin(50) ? (size_t)c.range(0, 12) : (size_t)c.range(10, 50);
		w.tree = Val::obj();
		for (size_t i = 0; i < n; i++)
			w.tree.set("k" + str(i), Val::i64((int64_t)i));
		w.key = c.coin(25) && n ? "k" + str(c.pickn(n)) : "new-key-" + std::string(c.range(0, 40), 'y');
		w.tree2 = some_tree(c, 3, false);
		break;
	}
	case W_ARR: {
		size_t n = c.coin(50) ? (size_t)c.range(0, 5) : (size_t)c.range(30, 34); // default capacity 32
		w.tree = Val::arr();
		for (size_t i = 0; i < n; i++)
			w.tree.a.push_back(Val::i64((int64_t)i));
		w.flags = (int)c.pickn(3) + (c.coin(40) ? 3 : 0);
		w.n = c.coin(40) ? n : c.coin(30) ? (n ? n - 1 : 0) : c.coin(50) ? (n ? c.pickn(n) : 0) : n + c.range(1, 70);
		if (c.coin(30))
			for (auto &e : w.tree.a)
				e = Val::str("element " + show(e, 10)); // elements with storage of their own
		w.tree2 = some_tree(c, 3, false);
		break;
	}
	case W_SETSTR:
		w.text = std::string(c.range(0, 20), 'a');
		w.n2 = c.coin(50) ? c.range(1, 30) : 0;
		w.text2 = std::string(c.range(0, 60), 'b');
		break;
	case W_COPY:
	case W_SER:
	case W_RESER:
		if (c.coin(40))
			w.text = valid_text(c, 3 + c.len(20));
		else
			w.tree = some_tree(c, 3 + c.len(25), true);
		if (w.tree.k == Val::Null && w.text.empty())
			w.tree = Val::arr();
		w.flags = (int)c.range(0, 63);
		if (c.coin(20))
		{
			// long strings force the print buffer to grow several times
			w.text.clear();
			w.tree = Val::arr();
			for (size_t i = 0, n = 1 + c.pickn(4); i < n; i++)
				w.tree.a.push_back(Val::str(std::string(c.range(20, 300), (char)('a' + i)) + "\n\"/"));
		}
		break;
	case W_PTRSET:
	case W_GETF: {
		w.tree = Val::obj();
		Val inner = Val::obj();
		inner.set("x/y", Val::arr());
		inner.set("n", Val::i64(1));
		// member counts around the table growth thresholds (12th, 23rd member): the new member then needs a resize
		for (size_t i = 0, nf = c.coin(50) ? (c.coin(50) ? 8 : 19) + c.pickn(4) : c.pickn(30); i < nf; i++)
			inner.set("f" + str(i), Val::i64((int64_t)i));
		w.tree.set("a", inner);
		w.tree.set("arr", Val::arr());
		for (size_t i = 0, n = c.range(0, 33); i < n; i++)
			w.tree.find("arr")->a.push_back(Val::i64((int64_t)i));
		static const char *paths[] = {"/a/x~1y/-", "/a/new", "/arr/-", "/arr/0", "/a/n", "/a/x~1y", "", "/zz/deep", "/arr/40", "/a/k~0k"};
		w.path = paths[c.pickn(10)];
		w.flags = (int)c.pickn(2);
		w.tree2 = some_tree(c, 3, false);
		break;
	}
	case W_PATCH:
	case W_PATCHCOPY: {
		w.tree = Val::obj();
		w.tree.set("foo", Val::arr());
		for (size_t i = 0, n = c.range(0, 5); i < n; i++)
			w.tree.find("foo")->a.push_back(Val::str("e" + str(i)));
		Val bar = Val::obj();
		bar.set("a/b", Val::i64(1));
		for (size_t i = 0, nf = c.coin(50) ? (c.coin(50) ? 9 : 20) + c.pickn(4) : c.pickn(30); i < nf; i++)
			bar.set("f" + str(i), Val::i64((int64_t)i));
		w.tree.set("bar", bar);
		// the same for the root object
		for (size_t i = 0, nf = c.coin(30) ? (c.coin(50) ? 7 : 18) + c.pickn(4) : 0; i < nf; i++)
			w.tree.set("r" + str(i), Val::null());
		static const char *ops[] = {"{\"op\":\"add\",\"path\":\"/foo/-\",\"value\":{\"deep\":[1,2,{\"x\":\"y\"}]}}",
		                            "{\"op\":\"remove\",\"path\":\"/bar/a~1b\"}",
		                            "{\"op\":\"replace\",\"path\":\"/bar\",\"value\":[1,2,3]}",
		                            "{\"op\":\"move\",\"from\":\"/foo\",\"path\":\"/bar/moved\"}",
		                            "{\"op\":\"copy\",\"from\":\"/bar\",\"path\":\"/baz\"}",
		                            "{\"op\":\"test\",\"path\":\"/bar/a~1b\",\"value\":1}",
		                            "{\"op\":\"add\",\"path\":\"/n\",\"value\":null}",
		                            "{\"op\":\"add\",\"path\":\"\",\"value\":{\"whole\":\"new\"}}",
		                            "{\"op\":\"copy\",\"from\":\"/foo/0\",\"path\":\"/foo/0\"}"};
		w.text = "[";
		for (size_t i = 0, n = 1 + c.pickn(4); i < n; i++)
			w.text += std::string(i ? "," : "") + ops[c.pickn(9)];
		w.text += "]";
		break;
	}
	case W_DBLFMT:
		w.text = c.coin(50) ? "%.3f" : "%.17g and a rather long tail that needs a real allocation";
		w.flags = (int)c.pickn(8);
		break;
	}
	ctx.label(w.name());
	std::string wdesc = std::string(w.name()) + " text=" + quote(w.text, 300) + " tree=" + show(w.tree, 300) + " key=" + quote(w.key, 40) + " path=" + quote(w.path) +
	                    " n=" + str(w.n) + " flags=" + str(w.flags);
	ctx.note(wdesc);
	// fault-free reference run
	long N = 0;
	Res ref;
	{
		LeakScope leak;
		ref = execute(ctx, w, -1, -1, N);
		leak.check(ctx, ("fault-free run of " + wdesc).c_str());
	}
	if (N > 3000)
		N = 3000;
	uint64_t wh = hash_str(wdesc);
	for (long k = 0; k < N; k++)
	{
		LeakScope leak;
		long n2 = 0;
		Res r = execute(ctx, w, k, -1, n2);
		long fired = verif_alloc_faults_fired();
		std::string site = verif_alloc_fault_site();
		std::string at = "allocation #" + str(k) + " of " + str(N) + " (" + site + ") failed in workload " + wdesc;
		if (fired < 1)
			ctx.fail("HARNESS", "fault did not fire: " + at);
		bool known_trunc = false;
		if (!r.failed && r.out != ref.out)
		{
			// known finding: serialisers ignore print-buffer growth failures (realloc in printbuf_extend) and return truncated text as success
			if (ctx.kf("serializer-truncates-on-oom") && (w.kind == W_SER || w.kind == W_RESER || w.kind == W_TOFD) && site == "realloc")
			{
				ctx.excluded("serializer-truncates-on-oom");
				known_trunc = true;
			}
			else
				ctx.fail(std::string("wrong-result-") + w.name(), "operation reported success but its result differs from the fault-free result: got " + quote(r.out, 300) +
				                                                      " expected " + quote(ref.out, 300) + " | " + at);
		}
		(void)known_trunc;
		leak.check(ctx, ("| " + at).c_str());
		if (k > 0)
			ctx.nontrivial(hash_u64((uint64_t)k, wh));
		ctx.label(r.failed ? "fault_reported" : "fault_absorbed");
	}
	// sampled double faults
	if (N >= 2)
	{
		for (int rep = 0; rep < 3; rep++)
		{
			long k1 = (long)c.pickn((size_t)N), k2 = (long)c.pickn((size_t)N);
			if (k1 == k2)
				continue;
			LeakScope leak;
			long n2 = 0;
			Res r = execute(ctx, w, std::min(k1, k2), std::max(k1, k2), n2);
			std::string at = "allocations #" + str(std::min(k1, k2)) + " and #" + str(std::max(k1, k2)) + " failed in workload " + wdesc;
			if (!r.failed && r.out != ref.out && !(ctx.kf("serializer-truncates-on-oom") && (w.kind == W_SER || w.kind == W_RESER || w.kind == W_TOFD)))
				ctx.fail(std::string("wrong-result-") + w.name(), "success with a wrong result under a double fault: " + quote(r.out, 200) + " | " + at);
			leak.check(ctx, ("| " + at).c_str());
			ctx.label("double_fault");
		}
	}
}
#include "engine_main.hpp"
