// C03 – incremental parsing is independent of how the input is split into calls.
// Differential: chunked feeding on one tokener vs a fresh one-shot parse of the bytes fed so far.
#include "common.hpp"
#include "refjson.hpp"
#include "textgen.hpp"
#include "parseutil.hpp"
#include "bytegen.hpp"
using namespace vf;

const char *HARNESS_ID = "C03";

static const char NUMA[] = {'-', '+', '.', 'e', 'E', '0', '1', '9', 'I', 'i'};

static uint64_t soup_count(int maxlen)
{
	uint64_t t = 0, p = 1;
	for (int l = 1; l <= maxlen; l++)
	{
		p *= NSOUP;
		t += p;
	}
	return t;
}
static uint64_t num_count(int maxlen)
{
	uint64_t t = 0, p = 1;
	for (int l = 1; l <= maxlen; l++)
	{
		p *= 10;
		t += p;
	}
	return t;
}

std::vector<ModeInfo> harness_modes()
{
	return {{"gen", 0, "generated texts (valid, mutated, concatenated, token soup) x all 2-splits + random k-splits + byte-at-a-time x flag sets"},
	        {"soup3", soup_count(3), "every string over a 30-symbol token alphabet up to length 3 (+NUL), all 2-splits, 5 flag sets"},
	        {"soup4", soup_count(4), "same up to length 4"},
	        {"num6", num_count(6), "every string over {-,+,.,e,E,0,1,9,I,i} up to length 6 (+NUL, bare and inside [ ]), all 2- and 3-splits"},
	        {"bytes", 0, "raw bytes from the choice stream as text + partition (libFuzzer)"},
	        {"literal", 0, "replay format: flag-set index byte, depth byte, then the literal text; all 2- and 3-splits"}};
}

namespace {

static const int FLAGSETS[8] = {0,
                                JSON_TOKENER_STRICT,
                                JSON_TOKENER_VALIDATE_UTF8,
                                JSON_TOKENER_STRICT | JSON_TOKENER_ALLOW_TRAILING_CHARS,
                                JSON_TOKENER_ALLOW_TRAILING_CHARS,
                                JSON_TOKENER_STRICT | JSON_TOKENER_VALIDATE_UTF8,
                                JSON_TOKENER_ALLOW_TRAILING_CHARS | JSON_TOKENER_VALIDATE_UTF8,
                                JSON_TOKENER_STRICT | JSON_TOKENER_ALLOW_TRAILING_CHARS | JSON_TOKENER_VALIDATE_UTF8};

struct Checker {
	Ctx &ctx;
	const std::string &T;
	int flags, depth;
	std::map<std::pair<size_t, size_t>, POut> cache;
	uint64_t compared = 0;
	bool saw_utf8_mid = false, saw_stream = false;
	Checker(Ctx &c, const std::string &t, int f, int d) : ctx(c), T(t), flags(f), depth(d) {}

	const POut &oneshot(size_t b, size_t e)
	{
		auto key = std::make_pair(b, e);
		auto it = cache.find(key);
		if (it != cache.end())
			return it->second;
		return cache[key] = parse_fresh(T.substr(b, e - b), flags, depth, false);
	}
	static bool is_numchar(unsigned char ch)
	{
		return (ch >= '0' && ch <= '9') || ch == '-' || ch == '+' || ch == '.' || ch == 'e' || ch == 'E';
	}
	// true iff T[from, to) is only whitespace and comments (the last one may reach `to` unterminated)
	bool only_ws_and_comments(size_t from, size_t to) const
	{
		size_t i = from;
		while (i < to)
		{
			unsigned char ch = (unsigned char)T[i];
			if (ch == ' ' || ch == '\t' || ch == '\n' || ch == '\r' || ch == '\f' || ch == '\v' || ch == 0)
			{
				i++;
				continue;
			}
			if (ch == '/' && i + 1 < to && T[i + 1] == '*')
			{
				size_t e = T.find("*/", i + 2);
				if (e == std::string::npos || e + 2 > to)
					return true; // the one-call parse itself stopped inside this comment (NUL / end of text)
				i = e + 2;
				continue;
			}
			if (ch == '/' && i + 1 < to && T[i + 1] == '/')
			{
				size_t e = T.find('\n', i + 2);
				if (e == std::string::npos || e + 1 > to)
					return true; // a line comment running to the end of what the one-call parse consumed
				i = e + 1;
				continue;
			}
			return false;
		}
		return true;
	}
	// The first document against ONE call on the whole text (not only prefix by prefix: a defect that is the same in
	// both would cancel out): if the whole text parses, every chunking must deliver the same value, and may stop
	// early only where nothing but whitespace and complete comments lies between its end and the one-call end.
	void first_doc_vs_whole(json_tokener *tok, const POut &adj, const std::vector<size_t> &cuts, size_t fed_to, bool utf8_mid)
	{
		const POut &whole = oneshot(0, T.size());
		if (whole.err != json_tokener_success)
			return;
		std::string why;
		bool bad = false;
		if (adj.err == json_tokener_success)
		{
			if (!same_val(whole.v, adj.v, why, DBL_BITS))
				bad = true;
			else if ((size_t)adj.end > (size_t)whole.end || !only_ws_and_comments((size_t)adj.end, std::min((size_t)whole.end, T.size())))
			{
				bad = true;
				why = "the chunked parse reports the document complete at offset " + str(adj.end) + ", one call on the whole text consumes " + str(whole.end) +
				      " bytes and more than whitespace / complete comments lies between";
			}
		}
		else if (adj.err != json_tokener_continue && !utf8_mid)
		{
			bad = true;
			why = "the whole text parses in one call";
		}
		if (!bad)
			return;
		json_tokener_free(tok);
		std::string cs;
		for (size_t x : cuts)
			cs += str(x) + ",";
		ctx.fail("whole-differs", "flags=" + str(flags) + " depth=" + str(depth) + " cuts=[" + cs + "] after " + str(fed_to) + " bytes the chunked parse gives " + adj.show_() +
		                              " | one call on the whole text " + whole.show_() + " | " + why + " | text=" + quote(T, 300));
	}
	// cuts: ascending positions strictly inside (0,n)
	void partition(const std::vector<size_t> &cuts)
	{
		json_tokener *tok = json_tokener_new_ex(depth);
		json_tokener_set_flags(tok, flags);
		std::vector<size_t> b = cuts;
		b.push_back(T.size());
		size_t base = 0, s = 0;
		size_t bi = 0;
		int guard = 0;
		bool known_numsplit = false;
		while (bi < b.size() && guard++ < 10000)
		{
			size_t e = b[bi];
			if (e <= s)
			{
				bi++;
				continue;
			}
			POut r = parse_call(tok, T.substr(s, e - s), false);
			const POut &exp = oneshot(base, e);
			// known-finding exclusion: the chunk boundary lies inside a run of number characters
			if (ctx.kf("number-resume") && s > base && is_numchar(T[s - 1]) && (is_numchar(T[s]) || T[s] == 'I' || T[s] == 'i'))
				known_numsplit = true;
			POut adj = r;
			adj.end = (s - base) + r.end;
			std::string why;
			compared++;
			if (!adj.same(exp, why))
			{
				if (known_numsplit)
				{
					ctx.excluded("number-resume");
					break;
				}
				json_tokener_free(tok);
				std::string cs;
				for (size_t x : cuts)
					cs += str(x) + ",";
				ctx.fail("split-differs", "flags=" + str(flags) + " depth=" + str(depth) + " cuts=[" + cs + "] after feeding bytes [" +
				                              str(s) + "," + str(e) + ") of the document starting at " + str(base) +
				                              ": chunked " + adj.show_() + " | one-shot " + exp.show_() + " | " + why +
				                              " | text=" + quote(T, 300));
			}
			if (base == 0 && !known_numsplit)
				first_doc_vs_whole(tok, adj, cuts, e, r.err == json_tokener_error_parse_utf8_string && e < T.size()); // (a character cut by a chunk boundary is an error by design: tests/test_parse pins it)
			if (r.err == json_tokener_continue)
			{
				s = e;
				bi++;
				continue;
			}
			if (r.err == json_tokener_success)
			{
				size_t nb = s + r.end;
				if (nb <= s && r.end == 0)
					break;
				saw_stream = saw_stream || nb < T.size();
				base = s = nb;
				known_numsplit = false;
				if (s >= e)
					bi++;
				continue;
			}
			if (r.err == json_tokener_error_parse_utf8_string && s > base)
				saw_utf8_mid = true;
			break; // error: the property says nothing about later calls without a reset
		}
		json_tokener_free(tok);
	}
	void all_two_splits()
	{
		for (size_t p = 1; p < T.size(); p++)
			partition({p});
	}
	void all_three_splits()
	{
		for (size_t p = 1; p < T.size(); p++)
			for (size_t q = p + 1; q < T.size(); q++)
				partition({p, q});
	}
	void bytewise()
	{
		std::vector<size_t> cuts;
		for (size_t p = 1; p < T.size(); p++)
			cuts.push_back(p);
		partition(cuts);
	}
};

static bool structural(unsigned char ch)
{
	return ch == ' ' || ch == '\t' || ch == '\n' || ch == '\r' || ch == '{' || ch == '}' || ch == '[' || ch == ']' ||
	       ch == ',' || ch == ':' || ch == 0;
}
static bool has_inner_token_split(const std::string &T)
{
	for (size_t p = 1; p < T.size(); p++)
		if (!structural(T[p - 1]) && !structural(T[p]))
			return true;
	return false;
}

static void run_text(Ctx &ctx, Choices *c, const std::string &T, const std::vector<int> &flagsets, int depth, bool three, uint64_t nth)
{
	bool nt = has_inner_token_split(T);
	bool utf8mid = false, stream = false;
	for (int f : flagsets)
	{
		Checker ck(ctx, T, f, depth);
		if (T.size() <= 450)
		{
			ck.all_two_splits();
			if (three)
				ck.all_three_splits();
			if (T.size() > 2)
				ck.bytewise();
		}
		else if (c)
		{
			// long texts (tokens of several KiB): sampled 2-splits and 3-splits, biased to the ends of the long token
			for (int rep = 0; rep < 10; rep++)
			{
				size_t p1 = 1 + c->pickn(T.size() - 1);
				if (rep < 3)
					p1 = T.size() - 1 - c->pickn(std::min<size_t>(T.size() - 1, 40));
				ck.partition({p1});
				size_t p2 = 1 + c->pickn(T.size() - 1);
				if (p2 != p1)
					ck.partition({std::min(p1, p2), std::max(p1, p2)});
			}
			if (c->coin(10))
				ck.bytewise();
		}
		if (c && T.size() > 3)
		{
			// random k-chunk partitions
			for (int rep = 0; rep < 2; rep++)
			{
				std::vector<size_t> cuts;
				size_t k = 2 + c->pickn(4);
				for (size_t j = 0; j < k; j++)
					cuts.push_back(1 + c->pickn(T.size() - 1));
				std::sort(cuts.begin(), cuts.end());
				cuts.erase(std::unique(cuts.begin(), cuts.end()), cuts.end());
				ck.partition(cuts);
			}
		}
		utf8mid |= ck.saw_utf8_mid;
		stream |= ck.saw_stream;
	}
	if (utf8mid)
		ctx.label("utf8_chunk_mid_char");
	if (stream)
		ctx.label("stream_resumed");
	if (nt)
	{
		ctx.label("split_inside_token");
		ctx.nontrivial(nth);
	}
}

static std::string decode_enum(uint64_t idx, int base, const std::function<std::string(int)> &sym)
{
	int len = 1;
	uint64_t p = base;
	while (idx >= p)
	{
		idx -= p;
		p *= base;
		len++;
	}
	std::string t;
	for (int k = 0; k < len; k++)
	{
		t = sym((int)(idx % base)) + t;
		idx /= base;
	}
	return t;
}
} // namespace

void run_case(Choices &c, Ctx &ctx)
{
	LeakScope leak;
	if (ctx.mode == "soup3" || ctx.mode == "soup4")
	{
		uint64_t idx = c.bits(8);
		std::string t = decode_enum(idx, NSOUP, [](int i) { return std::string(SOUP[i]); });
		t += '\0';
		ctx.note("text=" + quote(t));
		run_text(ctx, nullptr, t, {FLAGSETS[0], FLAGSETS[1], FLAGSETS[2], FLAGSETS[3], FLAGSETS[5]}, 32, false, idx);
		leak.check(ctx);
		return;
	}
	if (ctx.mode == "num6")
	{
		uint64_t idx = c.bits(8);
		std::string t = decode_enum(idx, 10, [](int i) { return std::string(1, NUMA[i]); });
		ctx.note("text=" + quote(t));
		run_text(ctx, nullptr, t + std::string(1, '\0'), {0, JSON_TOKENER_STRICT}, 32, true, idx);
		run_text(ctx, nullptr, "[" + t + "]", {0, JSON_TOKENER_STRICT}, 32, true, idx);
		leak.check(ctx);
		return;
	}
	if (ctx.mode == "literal")
	{
		int f = FLAGSETS[c.byte() & 7];
		int depth = c.byte();
		if (depth < 1)
			depth = 32;
		std::string t;
		while (c.pos < c.bp->size())
			t += (char)c.byte();
		ctx.note("text=" + quote(t) + " flags=" + str(f) + " depth=" + str(depth));
		run_text(ctx, nullptr, t, {f}, depth, t.size() <= 24, hash_str(t));
		leak.check(ctx);
		return;
	}
	std::string T;
	if (ctx.mode == "bytes")
	{
		size_t n = c.range(0, 64);
		T = c.bytes(n);
	}
	else if (c.coin(6))
	{
		// one very long token (string, member name, number or comment) inside a small document
		size_t n = c.coin(6) ? (size_t)c.range(9000, 70000) : (size_t)c.range(600, 9000);
		std::string filler;
		while (filler.size() < n)
		{
			switch (c.pick({12, 2, 2, 1}))
			{
			case 0: filler += std::string(1 + c.pickn(60), (char)c.range('a', 'z')); break;
			case 1: filler += "\\n"; break;
			case 2: filler += "\\u00e4"; break;
			default: filler += "\xc3\xa4"; break;
			}
		}
		switch (c.pickn(5))
		{
		case 4: // a long token, a short one, a long one again: what the tokener keeps between tokens
			T = "[\"" + filler + "\",\"s\",\"" + std::string(n / 2, 'q') + "\",{\"" + filler + "\":1}]";
			break;
		case 0: T = "[1,\"" + filler + "\",2]"; break;
		case 1: T = "{\"" + filler + "\":\"v\"}"; break;
		case 2: T = "[" + std::string(n, '7') + ",1.5e" + std::string(n / 20, '0') + "1]"; break;
		default: T = "[1 /*" + filler + "*/ ,2]"; break;
		}
		if (c.coin(50))
			T += '\0';
		ctx.label("src_long_token");
	}
	else
		T = gen_text(c, ctx);
	std::vector<int> fs = {0};
	fs.push_back(FLAGSETS[c.pickn(8)]);
	if (c.coin(30))
		fs.push_back(FLAGSETS[c.pickn(8)]);
	static const int depths[] = {32, 32, 32, 2, 3, 5};
	int depth = depths[c.pickn(6)];
	ctx.note("text=" + quote(T, 600) + " flagsets=" + str(fs[0]) + "," + str(fs[1]) + " depth=" + str(depth));
	run_text(ctx, &c, T, fs, depth, T.size() <= 12, hash_str(T, hash_u64(fs[1] * 64 + depth)));
	leak.check(ctx);
}
#include "engine_main.hpp"
