// C06 – a JSON object behaves as an insertion-ordered map under any operation history.
#include "common.hpp"
#include "refjson.hpp"
using namespace vf;

const char *HARNESS_ID = "C06";

static int g_hash_seed = 12345;
#ifdef VERIF_SEED_HOOK
// The entropy source may answer -1 ("no seed yet") any number of times before a real value: the library has to keep
// asking, and the seed it finally adopts must hold for the rest of the process. Depending on the worker's seed the
// first 0..6 answers are -1.
static int g_seed_refusals = -1;
extern "C" int verif_seed_hook(void)
{
	if (g_seed_refusals < 0)
		g_seed_refusals = (int)((unsigned)g_hash_seed % 7u);
	if (g_seed_refusals > 0)
	{
		g_seed_refusals--;
		return -1;
	}
	// every value other than -1 is a seed, zero included: some workers get 0 as the first real answer
	static int zero_first = -1;
	if (zero_first < 0)
		zero_first = ((unsigned)g_hash_seed / 7u) % 3u == 1u;
	if (zero_first == 1)
	{
		zero_first = 2;
		return 0;
	}
	return g_hash_seed;
}
#endif

static uint64_t pow9sum(int L)
{
	uint64_t t = 0, p = 1;
	for (int l = 1; l <= L; l++)
	{
		p *= 9;
		t += p;
	}
	return t;
}
std::vector<ModeInfo> harness_modes()
{
	return {{"obj", 0, "json_object level: add/add_ex/replace/del/get histories with colliding, empty and long keys, up to 2000 live keys, all iteration forms"},
	        {"lh", 0, "lh_table level: insert/insert_w_hash/lookup/delete/delete_entry/resize on tables of size 1..8 with a harness hash (collisions, wrap-around, tombstones)"},
	        {"lh_small5", 100 * pow9sum(5), "all sequences of <=5 ops {insert-or-replace,delete,lookup} x 3 keys on tables of size 1..4 under every home-slot assignment"},
	        {"lh_small7", 100 * pow9sum(7), "same, sequences of <=7 ops"}};
}

namespace {
// ------------------------------------------------------------------ lh_table level
static int g_home[16];
static int g_keys[16] = {0, 1, 2, 3, 4, 5, 6, 7, 8, 9, 10, 11, 12, 13, 14, 15};
static unsigned long lh_hash(const void *k) { return (unsigned long)g_home[*(const int *)k]; }
static int lh_eq(const void *a, const void *b) { return *(const int *)a == *(const int *)b; }
static const char *g_skeys[16] = {"k0", "k1", "k2", "k3", "k4", "k5", "k6", "k7", "k8", "k9", "k10", "k11", "k12", "k13", "k14", "k15"};
// entry free function: every entry is handed over exactly once, when it is deleted or the table is freed
static std::vector<std::pair<const void *, long>> g_lh_freed;
static void lh_free_cb(struct lh_entry *e) { g_lh_freed.emplace_back(lh_entry_k(e), (long)(intptr_t)lh_entry_v(e)); }

struct LH {
	Ctx &ctx;
	lh_table *t;
	std::vector<std::pair<int, long>> m; // ordered (key, value)
	std::map<int, bool> konst;           // key -> inserted with JSON_C_OBJECT_ADD_CONSTANT_KEY
	std::vector<std::pair<const void *, long>> want_freed;
	int kind = 0; // 0: harness hash over int keys, 1: lh_kptr_table_new (the same key objects, by address), 2: lh_kchar_table_new (string keys)
	std::string trace;
	uint64_t h = 0;
	bool f_tomb_probe = false, f_resize = false, f_wrap = false;
	std::set<int> deleted_slots_homes;
	LH(Ctx &c, int size, int kind_ = 0) : ctx(c), kind(kind_)
	{
		g_lh_freed.clear();
		t = kind == 1 ? lh_kptr_table_new(size, lh_free_cb) : kind == 2 ? lh_kchar_table_new(size, lh_free_cb) : lh_table_new(size, lh_free_cb, lh_hash, lh_eq);
	}
	~LH()
	{
		if (t)
			lh_table_free(t);
	}
	const void *kp(int k) const { return kind == 2 ? (const void *)g_skeys[k] : (const void *)&g_keys[k]; }
	int kid(const void *p) const { return kind == 2 ? atoi((const char *)p + 1) : *(const int *)p; }
	void finish()
	{
		for (auto &kv : m)
			want_freed.emplace_back(kp(kv.first), kv.second);
		lh_table_free(t);
		t = nullptr;
		if (g_lh_freed != want_freed)
			ctx.fail("free-callback", "entry free function calls differ from the model: " + str(g_lh_freed.size()) + " calls, model " + str(want_freed.size()) + " (or other entries / another order)");
	}
	void log(const std::string &s)
	{
		h = hash_str(s, h);
		if (ctx.verbose)
			trace += s + "\n";
	}
	int find(int k)
	{
		for (size_t i = 0; i < m.size(); i++)
			if (m[i].first == k)
				return (int)i;
		return -1;
	}
	void verify(const char *op)
	{
		if (lh_table_length(t) != (int)m.size())
			ctx.fail("length", std::string(op) + ": lh_table_length " + str(lh_table_length(t)) + " model " + str(m.size()));
		size_t i = 0;
		struct lh_entry *e;
		for (e = lh_table_head(t); e; e = lh_entry_next(e), i++)
		{
			if (i >= m.size())
				ctx.fail("iteration", std::string(op) + ": forward iteration yields more than " + str(m.size()) + " entries");
			// (the accessor returns the option bit, 4, not the documented 1: only its truth value is compared)
			if ((lh_entry_k_is_constant(e) != 0) != konst[m[i].first])
				ctx.fail("constant-flag", std::string(op) + ": entry of key " + str(m[i].first) + " reports k_is_constant=" + str(lh_entry_k_is_constant(e)));
			if (kid(lh_entry_k(e)) != m[i].first || (long)(intptr_t)lh_entry_v(e) != m[i].second)
				ctx.fail("iteration", std::string(op) + ": forward entry " + str(i) + " is key " + str(kid(lh_entry_k(e))) +
				                          " value " + str((long)(intptr_t)lh_entry_v(e)) + ", model has key " + str(m[i].first) + " value " + str(m[i].second));
		}
		if (i != m.size())
			ctx.fail("iteration", std::string(op) + ": forward iteration yields " + str(i) + " entries, model " + str(m.size()));
		i = m.size();
		for (e = t->tail; e; e = lh_entry_prev(e))
		{
			if (i == 0)
				ctx.fail("iteration", std::string(op) + ": backward iteration too long");
			i--;
			if (kid(lh_entry_k(e)) != m[i].first)
				ctx.fail("iteration", std::string(op) + ": backward order differs at " + str(i));
		}
		if (i != 0)
			ctx.fail("iteration", std::string(op) + ": backward iteration too short");
		// the iteration macros
		i = 0;
		lh_foreach(t, e)
		{
			if (i >= m.size() || kid(lh_entry_k(e)) != m[i].first)
				ctx.fail("iteration", std::string(op) + ": lh_foreach differs from the model at position " + str(i));
			i++;
		}
		if (i != m.size())
			ctx.fail("iteration", std::string(op) + ": lh_foreach yields " + str(i) + " entries, model " + str(m.size()));
		if (g_lh_freed != want_freed)
			ctx.fail("free-callback", std::string(op) + ": entry free function was called " + str(g_lh_freed.size()) + " times so far, model " + str(want_freed.size()) + " (or with other entries)");
		for (int k = 0; k < 16; k++)
		{
			void *v = (void *)(intptr_t)-77;
			int found = lh_table_lookup_ex(t, kp(k), &v);
			int idx = find(k);
			struct lh_entry *eh = lh_table_lookup_entry_w_hash(t, kp(k), lh_get_hash(t, kp(k)));
			if ((eh != nullptr) != (idx >= 0) || (eh && eh != lh_table_lookup_entry(t, kp(k))))
				ctx.fail("lookup", std::string(op) + ": lookup_entry_w_hash of key " + str(k) + " disagrees with the model / with lookup_entry");
			if ((found != 0) != (idx >= 0))
				ctx.fail("lookup", std::string(op) + ": lookup of key " + str(k) + " says " + (found ? "present" : "absent") + ", model " +
				                       (idx >= 0 ? "present" : "absent"));
			if (idx >= 0 && (long)(intptr_t)v != m[idx].second)
				ctx.fail("lookup", std::string(op) + ": lookup of key " + str(k) + " gives a stale value");
			if (idx < 0 && v != nullptr)
				ctx.fail("lookup", std::string(op) + ": failed lookup did not clear the value");
		}
	}
	void put(int k, long v, bool w_hash)
	{
		int size0 = t->size;
		struct lh_entry *e = lh_table_lookup_entry(t, kp(k));
		int idx = find(k);
		if ((e != nullptr) != (idx >= 0))
			ctx.fail("lookup", "lookup_entry of key " + str(k) + " disagrees with the model before insert");
		if (e)
		{
			lh_entry_set_val(e, (void *)(intptr_t)v);
			m[idx].second = v;
			log("replace k" + str(k));
		}
		else
		{
			bool kc = w_hash && (v & 1);
			int r = w_hash ? lh_table_insert_w_hash(t, kp(k), (void *)(intptr_t)v, lh_get_hash(t, kp(k)), kc ? JSON_C_OBJECT_ADD_CONSTANT_KEY : 0)
			               : lh_table_insert(t, kp(k), (void *)(intptr_t)v);
			if (r != 0)
				ctx.fail("retval", "insert returned " + str(r));
			m.emplace_back(k, v);
			konst[k] = kc;
			log("insert k" + str(k));
			if (!deleted_slots_homes.empty())
				f_tomb_probe = true;
		}
		if (t->size != size0)
			f_resize = true;
		verify("put");
	}
	void del(int k, bool by_entry)
	{
		int idx = find(k);
		int r;
		if (by_entry)
		{
			struct lh_entry *e = lh_table_lookup_entry(t, kp(k));
			if ((e != nullptr) != (idx >= 0))
				ctx.fail("lookup", "lookup_entry of key " + str(k) + " disagrees with the model before delete");
			r = e ? lh_table_delete_entry(t, e) : -1;
		}
		else
			r = lh_table_delete(t, kp(k));
		log("delete k" + str(k));
		if (idx >= 0)
		{
			want_freed.emplace_back(kp(k), m[idx].second);
			if (r != 0)
				ctx.fail("retval", "delete of a present key returned " + str(r));
			m.erase(m.begin() + idx);
			deleted_slots_homes.insert(g_home[k]);
		}
		else if (r == 0)
			ctx.fail("retval", "delete of an absent key returned 0");
		verify("delete");
	}
	void sweep(unsigned mask)
	{
		// delete a chosen subset while iterating with the macro meant for that
		struct lh_entry *e, *tmp;
		size_t pos = 0;
		std::vector<std::pair<int, long>> keep;
		lh_foreach_safe(t, e, tmp)
		{
			if (pos >= m.size())
				ctx.fail("iteration", "lh_foreach_safe yields more entries than the model has");
			if (kid(lh_entry_k(e)) != m[pos].first)
				ctx.fail("iteration", "lh_foreach_safe with deletions: position " + str(pos) + " is key " + str(kid(lh_entry_k(e))) + ", model " + str(m[pos].first));
			if ((mask >> (pos % 16)) & 1)
			{
				want_freed.emplace_back(kp(m[pos].first), m[pos].second);
				deleted_slots_homes.insert(g_home[m[pos].first]);
				if (lh_table_delete_entry(t, e) != 0)
					ctx.fail("retval", "delete_entry during lh_foreach_safe failed");
			}
			else
				keep.push_back(m[pos]);
			pos++;
		}
		if (pos != m.size())
			ctx.fail("iteration", "lh_foreach_safe with deletions visited " + str(pos) + " entries, model " + str(m.size()));
		m = keep;
		log("sweep " + str(mask));
		verify("foreach_safe-delete");
	}
	void resize(int ns)
	{
		int r = lh_table_resize(t, ns);
		log("resize " + str(ns));
		if (r != 0)
			ctx.fail("retval", "resize returned " + str(r));
		f_resize = true;
		deleted_slots_homes.clear();
		verify("resize");
	}
};

static void run_lh_small(Ctx &ctx, uint64_t idx, int maxlen)
{
	uint64_t per = pow9sum(maxlen);
	uint64_t cfg = idx / per, sq = idx % per;
	// cfg 0..99 -> (size, homes)
	int size = 1;
	uint64_t base = 0;
	for (size = 1; size <= 4; size++)
	{
		uint64_t n = (uint64_t)size * size * size;
		if (cfg < base + n)
			break;
		base += n;
	}
	uint64_t hc = cfg - base;
	for (int k = 0; k < 3; k++)
	{
		g_home[k] = (int)(hc % size);
		hc /= size;
	}
	int len = 1;
	uint64_t p = 9;
	while (sq >= p)
	{
		sq -= p;
		p *= 9;
		len++;
	}
	LH t(ctx, size);
	long val = 100;
	for (int i = 0; i < len; i++)
	{
		int op = (int)(sq % 9);
		sq /= 9;
		int k = op % 3;
		switch (op / 3)
		{
		case 0: t.put(k, val++, i & 1); break;
		case 1: t.del(k, i & 1); break;
		default: t.verify("lookup"); break;
		}
	}
	t.finish();
	if (t.f_tomb_probe || t.f_resize)
		ctx.nontrivial(idx);
	ctx.note("table size " + str(size) + " homes " + str(g_home[0]) + "," + str(g_home[1]) + "," + str(g_home[2]) + "\n" + t.trace);
}

static void run_lh(Choices &c, Ctx &ctx)
{
	int size = (int)c.range(1, 8);
	int nkeys = (int)c.range(2, 8);
	for (int k = 0; k < 16; k++)
	{
		switch (c.pick({3, 3, 2}))
		{
		case 0: g_home[k] = 0; break;
		case 1: g_home[k] = size - 1; break; // wrap-around
		default: g_home[k] = (int)c.range(0, 1000); break;
		}
	}
	int kind = (int)c.pick({6, 2, 2});
	if (kind)
		nkeys = (int)c.range(2, 16);
	LH t(ctx, size, kind);
	size_t nops = 1 + c.len(40);
	long val = 1;
	for (size_t i = 0; i < nops; i++)
	{
		SpanGuard g(c);
		int k = (int)c.pickn(nkeys);
		switch (c.pick({20, 16, 2, 1}))
		{
		case 0: t.put(k, val++, c.coin(50)); break;
		case 1: t.del(k, c.coin(50)); break;
		case 2: t.resize(std::max<int>(1, (int)t.m.size() * 2 + (int)c.range(0, 3))); break;
		default: t.sweep((unsigned)c.range(0, 65535)); break;
		}
	}
	t.finish();
	if (kind == 1)
		ctx.label("lh_kptr_table");
	if (kind == 2)
		ctx.label("lh_kchar_table");
	if (t.f_tomb_probe)
		ctx.label("insert_after_delete");
	if (t.f_resize)
		ctx.label("resize");
	if (t.f_tomb_probe || t.f_resize)
		ctx.nontrivial(t.h ^ hash_u64(size));
	ctx.note("lh_table size " + str(size) + "\n" + t.trace);
}

// ------------------------------------------------------------------ json_object level
struct Tracked {
	long id;
};
static std::string colliding_key(uint64_t bits, int blocks)
{
	// perl-like hash: "Aa" and "B@" contribute the same; 2^blocks keys share one hash value
	std::string s;
	for (int i = 0; i < blocks; i++)
		s += ((bits >> i) & 1) ? "B@" : "Aa";
	return s;
}
// a copy of the key at a chosen alignment (address % 4 == off)
struct AlignedKey {
	std::vector<char> buf;
	const char *p;
	AlignedKey(const std::string &k, unsigned off) : buf(k.size() + 16)
	{
		uintptr_t base = (uintptr_t)buf.data();
		size_t pad = (4 - base % 4) % 4 + off % 4;
		memcpy(buf.data() + pad, k.c_str(), k.size() + 1);
		p = buf.data() + pad;
	}
};
struct OBJ {
	Ctx &ctx;
	json_object *o;
	unsigned align_salt = 0;
	std::vector<std::pair<std::string, json_object *>> m;
	std::vector<std::string> pool;
	std::vector<char *> const_keys; // stable storage for CONSTANT_KEY adds
	std::string trace;
	uint64_t h = 0;
	bool f_del_then_insert = false, f_deleted = false, f_grew = false, f_iter_delete = false, f_const = false, f_visit_delete = false;
	OBJ(Ctx &c) : ctx(c) { o = json_object_new_object(); }
	void log(const std::string &s)
	{
		h = hash_str(s, h);
		if (ctx.verbose)
			trace += s + "\n";
	}
	int find(const std::string &k)
	{
		for (size_t i = 0; i < m.size(); i++)
			if (m[i].first == k)
				return (int)i;
		return -1;
	}
	void quick_check(const std::string &k)
	{
		if (json_object_object_length(o) != (int)m.size())
			ctx.fail("length", "object_length " + str(json_object_object_length(o)) + " model " + str(m.size()) + " after " + trace.substr(trace.size() > 200 ? trace.size() - 200 : 0));
		json_object *v = (json_object *)(intptr_t)-5;
		AlignedKey ak(k, align_salt++);
		int found = json_object_object_get_ex(o, ak.p, &v);
		int idx = find(k);
		if ((found != 0) != (idx >= 0))
			ctx.fail("lookup", "get_ex(" + quote(k, 40) + ") says " + (found ? "present" : "absent") + ", model says " + (idx >= 0 ? "present" : "absent"));
		if (idx >= 0 && v != m[idx].second)
			ctx.fail("lookup", "get_ex(" + quote(k, 40) + ") returned a different value node");
		if (idx < 0 && v != nullptr)
			ctx.fail("lookup", "failed get_ex did not set the value to NULL");
		if (json_object_object_get(o, k.c_str()) != (idx >= 0 ? m[idx].second : nullptr))
			ctx.fail("lookup", "object_get(" + quote(k, 40) + ") disagrees");
	}
	struct VisitLog {
		std::vector<std::pair<std::string, json_object *>> seen;
	};
	static int visit_cb(json_object *jso, int flags, json_object *parent, const char *key, size_t *, void *arg)
	{
		VisitLog *l = (VisitLog *)arg;
		if (parent && key && !(flags & JSON_C_VISIT_SECOND))
		{
			l->seen.emplace_back(key, jso);
			return JSON_C_VISIT_RETURN_SKIP;
		}
		return JSON_C_VISIT_RETURN_CONTINUE;
	}
	void expect_seq(const std::vector<std::pair<std::string, json_object *>> &got, const char *form)
	{
		if (got.size() != m.size())
			ctx.fail("iteration", std::string(form) + " yields " + str(got.size()) + " members, model has " + str(m.size()));
		for (size_t i = 0; i < m.size(); i++)
			if (got[i].first != m[i].first || got[i].second != m[i].second)
				ctx.fail("iteration", std::string(form) + ": member #" + str(i) + " is " + quote(got[i].first, 40) + ", model has " + quote(m[i].first, 40) +
				                          (got[i].first == m[i].first ? " (value node differs)" : ""));
	}
	void full_check()
	{
		std::vector<std::pair<std::string, json_object *>> got;
		{
			json_object_object_foreach(o, key, val) { got.emplace_back(key, val); }
			expect_seq(got, "json_object_object_foreach");
		}
		got.clear();
		{
			struct json_object_iter it;
			json_object_object_foreachC(o, it) { got.emplace_back(it.key, it.val); }
			expect_seq(got, "json_object_object_foreachC");
		}
		got.clear();
		{
			json_object_iterator it = json_object_iter_begin(o), e = json_object_iter_end(o);
			while (!json_object_iter_equal(&it, &e))
			{
				got.emplace_back(json_object_iter_peek_name(&it), json_object_iter_peek_value(&it));
				json_object_iter_next(&it);
			}
			expect_seq(got, "iterator API");
		}
		{
			VisitLog vl;
			if (json_c_visit(o, 0, visit_cb, &vl) != 0)
				ctx.fail("iteration", "json_c_visit failed");
			expect_seq(vl.seen, "json_c_visit");
		}
		{
			size_t l = 0;
			const char *t = json_object_to_json_string_length(o, JSON_C_TO_STRING_PLAIN, &l);
			RefResult r = ref_parse(std::string(t ? t : "", l));
			if (!r.ok || r.v.k != Val::Obj || r.v.o.size() != m.size() || r.has_dup_key)
				ctx.fail("iteration", "serialisation does not list each live key exactly once: " + quote(std::string(t ? t : "", l), 300));
			for (size_t i = 0; i < m.size(); i++)
				if (r.v.o[i].first != m[i].first || (r.v.o[i].second.neg ? -(long)r.v.o[i].second.mag : (long)r.v.o[i].second.mag) != (long)json_object_get_int64(m[i].second))
					ctx.fail("iteration", "serialisation member #" + str(i) + " is " + quote(r.v.o[i].first, 40) + ", model has " + quote(m[i].first, 40));
		}
		for (auto &k : pool)
			quick_check(k);
	}
	void add(const std::string &k, int variant, long val)
	{
		int idx = find(k);
		json_object *v = json_object_new_int64(val);
		int size0 = json_object_get_object(o)->size;
		int r;
		std::string what;
		AlignedKey ak(k, align_salt += 1 + (unsigned)val % 3);
		if (variant == 1 && idx < 0)
		{
			r = json_object_object_add_ex(o, ak.p, v, JSON_C_OBJECT_ADD_KEY_IS_NEW);
			what = "add_ex(KEY_IS_NEW) ";
		}
		else if (variant == 2)
		{
			char *stable = strdup(k.c_str());
			const_keys.push_back(stable);
			r = json_object_object_add_ex(o, stable, v, JSON_C_OBJECT_ADD_CONSTANT_KEY | (idx < 0 && (val & 1) ? JSON_C_OBJECT_ADD_KEY_IS_NEW : 0));
			what = "add_ex(CONSTANT_KEY) ";
			f_const = true;
		}
		else
		{
			r = json_object_object_add(o, ak.p, v);
			what = "add ";
		}
		log(what + quote(k, 30) + (idx >= 0 ? " (replace)" : ""));
		if (r != 0)
			ctx.fail("retval", what + "returned " + str(r));
		if (idx >= 0)
			m[idx].second = v;
		else
		{
			m.emplace_back(k, v);
			if (f_deleted)
				f_del_then_insert = true;
		}
		if (json_object_get_object(o)->size != size0)
			f_grew = true;
		quick_check(k);
	}
	void del(const std::string &k)
	{
		int idx = find(k);
		AlignedKey ak(k, align_salt += 3);
		json_object_object_del(o, ak.p);
		log("del " + quote(k, 30) + (idx < 0 ? " (absent)" : ""));
		if (idx >= 0)
		{
			m.erase(m.begin() + idx);
			f_deleted = true;
		}
		quick_check(k);
	}
	// delete some keys while iterating with the foreach macro: the iteration must still visit the pre-iteration sequence
	void iterate_and_delete(Choices &c)
	{
		std::vector<std::pair<std::string, json_object *>> before = m;
		std::vector<std::string> seen;
		std::vector<std::string> to_delete;
		unsigned stride = 1 + (unsigned)c.pickn(3);
		size_t i = 0;
		{
			json_object_object_foreach(o, key, val)
			{
				(void)val;
				std::string k = key;
				seen.push_back(k);
				if (i % stride == 0)
				{
					json_object_object_del(o, key);
					to_delete.push_back(k);
				}
				else if (i % 5 == 2)
				{
					// replacing the current key's value is allowed too
					json_object *nv = json_object_new_int64(-(long)i);
					json_object_object_add(o, k.c_str(), nv);
					m[find(k)].second = nv;
				}
				i++;
			}
		}
		log("foreach deleting every " + str(stride) + ". key");
		if (seen.size() != before.size())
			ctx.fail("iterate-delete", "foreach with deletion of the current key visited " + str(seen.size()) + " of " + str(before.size()) + " members");
		for (size_t j = 0; j < before.size(); j++)
			if (seen[j] != before[j].first)
				ctx.fail("iterate-delete", "foreach with deletion visited " + quote(seen[j], 30) + " at position " + str(j) + " instead of " + quote(before[j].first, 30));
		for (auto &k : to_delete)
		{
			m.erase(m.begin() + find(k));
			f_deleted = true;
		}
		f_iter_delete = true;
		full_check();
	}
	// the same through the visitor: the callback deletes the member it is being shown (and returns SKIP, so the
	// traversal does not touch the deleted value); the remaining members are still all visited, in order
	struct VDel {
		OBJ *self;
		unsigned stride;
		size_t i = 0;
		std::vector<std::string> seen, deleted;
	};
	static int visit_delete_cb(json_object *, int flags, json_object *parent, const char *key, size_t *, void *arg)
	{
		VDel *v = (VDel *)arg;
		if (!parent || !key || flags == JSON_C_VISIT_SECOND)
			return JSON_C_VISIT_RETURN_CONTINUE;
		std::string k = key;
		v->seen.push_back(k);
		bool del = v->i % v->stride == 0;
		v->i++;
		if (del)
		{
			json_object_object_del(parent, key);
			v->deleted.push_back(k);
			return JSON_C_VISIT_RETURN_SKIP;
		}
		return JSON_C_VISIT_RETURN_CONTINUE;
	}
	void visit_and_delete(Choices &c)
	{
		std::vector<std::pair<std::string, json_object *>> before = m;
		VDel v;
		v.self = this;
		v.stride = 1 + (unsigned)c.pickn(3);
		int rc = json_c_visit(o, 0, visit_delete_cb, &v);
		log("visitor deleting every " + str(v.stride) + ". member");
		if (rc != 0)
			ctx.fail("iterate-delete", "json_c_visit returned " + str(rc));
		if (v.seen.size() != before.size())
			ctx.fail("iterate-delete", "visitor with deletion of the current member visited " + str(v.seen.size()) + " of " + str(before.size()) + " members");
		for (size_t j = 0; j < before.size(); j++)
			if (v.seen[j] != before[j].first)
				ctx.fail("iterate-delete", "visitor with deletion visited " + quote(v.seen[j], 30) + " at position " + str(j) + " instead of " + quote(before[j].first, 30));
		for (auto &k : v.deleted)
		{
			m.erase(m.begin() + find(k));
			f_deleted = true;
		}
		f_iter_delete = f_visit_delete = true;
		full_check();
	}
	void finish()
	{
		full_check();
		json_object_put(o);
		for (char *p : const_keys)
			free(p);
	}
};

static void run_obj(Choices &c, Ctx &ctx)
{
	int hashsel = c.coin(35) ? JSON_C_STR_HASH_PERLLIKE : JSON_C_STR_HASH_DFLT;
	json_global_set_string_hash(hashsel);
	OBJ ob(ctx);
	// key pool
	size_t np = 2 + c.len(30) + (c.coin(25) ? 14 : 0);
	bool many = c.coin(6);
	if (many)
		np = 200 + (size_t)c.range(0, 1900);
	int blocks = 2 + (int)c.pickn(5);
	bool f_high = false;
	for (size_t i = 0; i < np; i++)
	{
		std::string k;
		switch (many ? c.pick({0, 2, 0, 5, 0}) : c.pick({2, 6, 1, 5, 2}))
		{
		case 0: k = ""; break;
		case 1: k = colliding_key(c.range(0, (1u << blocks) - 1), blocks); break;
		case 2: k = std::string((size_t)c.range(1, 300), (char)('a' + i % 26)) + str(i % 7); break;
		case 3:
			k = "k" + str(many ? i : c.range(0, 40));
			if (c.coin(40))
				k += std::string(c.range(0, 26), (char)('a' + i % 26)); // every length: all tail cases of the hash
			break;
		default: {
			k = c.bytes(1 + c.pickn(6));
			for (auto &ch : k)
				if (ch == 0)
					ch = '\x01';
			break;
		}
		}
		if (c.coin(25) && !k.empty())
		{
			// bytes >= 0x80 anywhere in the name (signed/unsigned char handling of the hash functions)
			for (size_t j = 0, nj = 1 + c.pickn(3); j < nj; j++)
				k.insert(c.pickn(k.size() + 1), 1, (char)c.range(0x80, 0xff));
			f_high = true;
		}
		ob.pool.push_back(k);
	}
	if (f_high)
		ctx.label("member_names_with_high_bytes");
	size_t nops = many ? np + (size_t)c.range(0, 600) : 1 + c.len(60);
	if (!many && c.coin(25))
		nops += 30; // enough inserts to cross the first growth threshold even in small-size cases
	long val = 1;
	if (!many && c.coin(20))
	{
		// prefill past the first growth threshold so the rest of the history runs on a resized table
		size_t pre = 10 + c.pickn(30);
		for (size_t i = 0; i < pre; i++)
		{
			std::string k = "pre" + str(i);
			ob.pool.push_back(k);
			ob.add(k, 0, val++);
		}
	}
	for (size_t i = 0; i < nops; i++)
	{
		SpanGuard g(c);
		const std::string &k = many && i < np ? ob.pool[i] : ob.pool[c.pickn(ob.pool.size())];
		if (c.coin(2))
		{
			// selecting the other string hash must only affect objects created afterwards
			json_global_set_string_hash(c.coin(50) ? JSON_C_STR_HASH_PERLLIKE : JSON_C_STR_HASH_DFLT);
			ob.log("json_global_set_string_hash switched");
			ctx.label("hash_selection_switched_mid_history");
		}
		switch (many && i < np ? 0 : c.pick({12, 8, 2, 1}))
		{
		case 0: ob.add(k, (int)c.pickn(3), val++); break;
		case 1: ob.del(k); break;
		case 2: ob.full_check(); break;
		default:
			if (!many)
			{
				if (c.coin(40))
					ob.visit_and_delete(c);
				else
					ob.iterate_and_delete(c);
			}
			break;
		}
	}
	if (many)
		ctx.label("many_keys");
	if (ob.f_grew)
		ctx.label("table_grew");
	if (ob.f_del_then_insert)
		ctx.label("insert_after_delete");
	if (ob.f_iter_delete)
		ctx.label("delete_during_foreach");
	if (ob.f_visit_delete)
		ctx.label("delete_during_visit");
	if (ob.f_const)
		ctx.label("constant_key");
	ctx.label(hashsel == JSON_C_STR_HASH_PERLLIKE ? "hash_perllike" : "hash_default");
	if (ob.f_grew || ob.f_del_then_insert || ob.f_iter_delete)
		ctx.nontrivial(ob.h ^ hash_u64(hashsel));
	ctx.note(std::string("hash function: ") + (hashsel == JSON_C_STR_HASH_PERLLIKE ? "perl-like" : "default") + " seed " + str(g_hash_seed) + "\n" + ob.trace);
	ob.finish();
	json_global_set_string_hash(JSON_C_STR_HASH_DFLT);
}
} // namespace

void harness_init(const std::string &)
{
	// one hash seed per process (the seed is fixed at first use): derived from VERIF_SEED and the worker slot
	const char *s = getenv("VERIF_HASHSEED");
	if (s)
		g_hash_seed = atoi(s);
}

void run_case(Choices &c, Ctx &ctx)
{
	LeakScope leak;
	if (ctx.mode == "lh_small5")
		run_lh_small(ctx, c.bits(8), 5);
	else if (ctx.mode == "lh_small7")
		run_lh_small(ctx, c.bits(8), 7);
	else if (ctx.mode == "lh")
		run_lh(c, ctx);
	else
		run_obj(c, ctx);
	leak.check(ctx);
}
#define VERIF_HAVE_INIT 1
#include "engine_main.hpp"
