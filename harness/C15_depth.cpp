// C15 – the nesting limit is exact and enforced for every configured depth.
#include "common.hpp"
#include "refjson.hpp"
#include "textgen.hpp"
#include "parseutil.hpp"
#include <sys/mman.h>
#include <unistd.h>
#include <climits>
using namespace vf;

const char *HARNESS_ID = "C15";
std::vector<ModeInfo> harness_modes()
{
	return {{"gen", 0, "D in 1..64 (sometimes to 300/1000/2000), generated documents nested around D, one-shot and chunked, plus hostile deep input"},
	        {"boundary", 64 * 12 * 3 * 3, "for every D<=64: 12 boundary shapes x {array,object,mixed} x nesting D-2, D-1 (deepest accepted), D"},
	        {"literal", 0, "replay: depth (2 bytes) then literal text"}};
}

namespace {
struct Expect {
	bool accept;
	Val v;
	size_t win_lo = 0, win_hi = 0; // allowed error offsets [lo,hi]
};

// first value (document order) enclosed by exactly D containers
static bool first_too_deep(const RefResult &ref, int D, size_t &lo, size_t &hi)
{
	size_t prev_end = 0;
	for (auto &t : ref.toks)
	{
		bool value_start = t.k == RefTok::LBRACE || t.k == RefTok::LBRACK || t.k == RefTok::NUMBER || t.k == RefTok::LITERAL ||
		                   (t.k == RefTok::STRING && !t.is_key);
		if (value_start && t.depth == D)
		{
			lo = prev_end;
			hi = t.start + 1;
			return true;
		}
		prev_end = t.end;
	}
	return false;
}

static void check_doc(Ctx &ctx, Choices *c, const std::string &text, int D, const RefResult &ref)
{
	bool accept = ref.max_depth <= D - 1;
	size_t lo = 0, hi = 0;
	if (!accept && !first_too_deep(ref, D, lo, hi))
		ctx.fail("HARNESS", "no too-deep value found although max depth " + str(ref.max_depth) + " > " + str(D - 1));
	for (int pass = 0; pass < 3; pass++)
	{
		POut r;
		std::string how = "one-shot";
		if (pass == 0)
			r = parse_fresh(text, 0, D, true);
		else if (pass == 2)
		{
			// a tokener that has already been used: a first document that fills the level stack (or overruns it, or
			// stops half-way), a reset, then this document - the limit must still be exactly D
			if (!c)
				break;
			int wl;
			switch (c->pickn(4))
			{
			case 0: wl = D - 1; break;                     // the scalar sits at the deepest allowed level
			case 1: wl = D + (int)c->pickn(4); break;      // refused
			case 2: wl = (int)c->range(0, (uint64_t)D - 1); break;
			default: wl = D; break;                        // refused at the innermost value
			}
			std::string warm = std::string((size_t)wl, '[') + "1";
			bool closed = c->coin(70);
			if (closed)
				warm += std::string((size_t)wl, ']');
			json_tokener *tok = json_tokener_new_ex(D);
			POut w = parse_call(tok, warm, true);
			if ((wl <= D - 1) != (w.err != json_tokener_error_depth))
			{
				json_tokener_free(tok);
				ctx.fail("warmup", "D=" + str(D) + ": a document of " + str(wl) + " nested arrays gave " + w.show_());
			}
			json_tokener_reset(tok);
			r = parse_call(tok, text, true);
			json_tokener_free(tok);
			how = "reused tokener (after " + str(wl) + " nested arrays" + (closed ? "" : ", unclosed") + " and a reset)";
		}
		else
		{
			if (!c || text.size() < 2)
				break;
			// chunked: 1..3 cuts
			std::vector<size_t> cuts;
			size_t k = 1 + c->pickn(3);
			for (size_t j = 0; j < k; j++)
				cuts.push_back(1 + c->pickn(text.size() - 1));
			std::sort(cuts.begin(), cuts.end());
			cuts.push_back(text.size());
			json_tokener *tok = json_tokener_new_ex(D);
			size_t s = 0;
			how = "chunked";
			for (size_t e : cuts)
			{
				if (e <= s)
					continue;
				bool last = e == text.size();
				r = parse_call(tok, text.substr(s, e - s), last);
				r.end += s;
				if (r.err != json_tokener_continue)
					break;
				s = e;
			}
			json_tokener_free(tok);
		}
		if (accept)
		{
			std::string why;
			if (r.err != json_tokener_success)
				ctx.fail("rejected", how + ": D=" + str(D) + " max nesting " + str(ref.max_depth) + " (<= D-1) but got " + r.show_() +
				                         " text=" + quote(text, 300));
			if (!same_val(ref.v, r.v, why, DBL_JUDGE))
				ctx.fail("value", how + ": D=" + str(D) + " " + why);
		}
		else
		{
			if (r.err != json_tokener_error_depth)
				ctx.fail("not-depth-error", how + ": D=" + str(D) + " max nesting " + str(ref.max_depth) + " (> D-1) but got " + r.show_() +
				                                " text=" + quote(text, 300));
			if (r.end < lo || r.end > hi)
				ctx.fail("error-position", how + ": D=" + str(D) + " depth error reported at offset " + str(r.end) +
				                               ", first too-deep value window is [" + str(lo) + "," + str(hi) + "] text=" + quote(text, 300));
		}
	}
}

static std::string wrap(const std::string &inner, int levels, int kind, bool siblings)
{
	std::string pre, post;
	for (int i = 0; i < levels; i++)
	{
		bool arr = kind == 0 || (kind == 2 && (i & 1) == 0);
		if (arr)
		{
			pre += siblings ? "[0, " : "[";
			post = (siblings ? ",\"x\"]" : "]") + post;
		}
		else
		{
			pre += siblings ? "{\"p\":[],\"k\":" : "{\"k\":";
			post = (siblings ? ",\"q\":{}}" : "}") + post;
		}
	}
	return pre + inner + post;
}

static void fd_check(Ctx &ctx, const std::string &text, int D, bool accept)
{
	// from_fd_ex parses exactly the file's bytes (no terminator), so a bare top-level scalar is "incomplete":
	// compare with what one in-memory call on the same bytes does
	if (accept && parse_fresh(text, 0, D, false).err != json_tokener_success)
		return;
	int fd = memfd_create("c15", 0);
	if (fd < 0)
		return;
	if (write(fd, text.data(), text.size()) != (ssize_t)text.size() || lseek(fd, 0, SEEK_SET) != 0)
	{
		close(fd);
		return;
	}
	json_object *o = json_object_from_fd_ex(fd, D);
	close(fd);
	bool got = o != nullptr;
	json_object_put(o);
	// a document that is the JSON value null returns NULL too: only use non-null roots
	if (accept && !got)
		ctx.fail("fd-rejected", "json_object_from_fd_ex(depth=" + str(D) + ") rejected a document within the limit: " + quote(text, 200));
	if (!accept && got)
		ctx.fail("fd-accepted", "json_object_from_fd_ex(depth=" + str(D) + ") accepted a document beyond the limit: " + quote(text, 200));
	if (!accept)
	{
		// the failure must be the nesting-too-deep error; through this entry point it is visible in the retrievable message
		const char *m = json_util_get_last_err();
		if (!m || !strstr(m, json_tokener_error_desc(json_tokener_error_depth)))
			ctx.fail("fd-wrong-error", "json_object_from_fd_ex(depth=" + str(D) + ") refused a too-deep document of " + str(text.size()) +
			                               " bytes but not with the nesting-too-deep error: " + std::string(m ? m : "(no message)"));
	}
}
} // namespace

void run_case(Choices &c, Ctx &ctx)
{
	LeakScope leak;
	if (ctx.mode == "literal")
	{
		int D = (int)c.bits(2);
		std::string text;
		while (c.pos < c.bp->size())
			text += (char)c.byte();
		RefResult ref = ref_parse(text, true, true);
		if (!ref.ok)
			ctx.fail("HARNESS", "literal text is not valid JSON");
		ctx.note("D=" + str(D) + " text=" + quote(text));
		check_doc(ctx, &c, text, D, ref);
		leak.check(ctx);
		return;
	}
	if (ctx.mode == "boundary")
	{
		uint64_t idx = c.bits(8);
		int delta = (int)(idx % 3) - 1; // max enclosure = D-1+delta
		int kind = (int)(idx / 3 % 3);
		int shape = (int)(idx / 9 % 12);
		int D = 1 + (int)(idx / 108);
		static const char *inner[12] = {"1", "\"s\"", "null", "[]", "{}", "[1]", "{\"a\":1}", "[[]]", "[{}]", "1", "-0.5e1", "{\"a\":[]}"};
		static const int extra[12] = {0, 0, 0, 0, 0, 1, 1, 1, 1, 0, 0, 1};
		int L = D - 1 + delta - extra[shape];
		if (L < 0)
			return;
		std::string text = wrap(inner[shape], L, kind, shape >= 9);
		RefResult ref = ref_parse(text, true, true);
		if (!ref.ok || ref.max_depth != D - 1 + delta)
			ctx.fail("HARNESS", "boundary construction wrong: " + quote(text) + " depth " + str(ref.max_depth) + " wanted " + str(D - 1 + delta));
		ctx.note("D=" + str(D) + " text=" + quote(text, 300));
		check_doc(ctx, nullptr, text, D, ref);
		ctx.nontrivial(idx);
		leak.check(ctx);
		return;
	}
	// refused depths
	if (c.coin(3))
	{
		int bad[] = {0, -1, -32, INT_MIN};
		int d = bad[c.pickn(4)];
		json_tokener *t = json_tokener_new_ex(d);
		if (t)
		{
			json_tokener_free(t);
			ctx.fail("bad-depth-accepted", "json_tokener_new_ex(" + str(d) + ") returned a parser");
		}
		// the same through the descriptor entry point (-1 alone means "default depth")
		int fd = memfd_create("c15r", 0);
		if (fd >= 0)
		{
			if (write(fd, "[1]", 3) == 3)
			{
				int bd[] = {0, -2, -32, INT_MIN};
				int dd = bd[c.pickn(4)];
				lseek(fd, 0, SEEK_SET);
				json_object *o = json_object_from_fd_ex(fd, dd);
				if (o)
				{
					json_object_put(o);
					close(fd);
					ctx.fail("bad-depth-accepted", "json_object_from_fd_ex(fd, " + str(dd) + ") returned a document");
				}
				lseek(fd, 0, SEEK_SET);
				o = json_object_from_fd_ex(fd, -1);
				if (!o)
				{
					close(fd);
					ctx.fail("default-depth-refused", "json_object_from_fd_ex(fd, -1) refused a flat document");
				}
				json_object_put(o);
			}
			close(fd);
		}
		ctx.label("refused_depth");
	}
	int D;
	switch (c.pick({70, 20, 8, 2}))
	{
	case 0: D = (int)c.range(1, 16); break;
	case 1: D = (int)c.range(17, 64); break;
	case 2: D = (int)c.range(65, 300); break;
	default: D = c.coin(50) ? 1000 : 2000; break;
	}
	if (c.coin(6))
	{
		// hostile: far deeper than D, expectation computed analytically (no recursion in the harness)
		size_t N = c.coin(50) ? 100000 : (size_t)c.range((uint64_t)D, (uint64_t)D * 50 + 10);
		bool obj = c.coin(40);
		std::string unit = obj ? "{\"a\":" : "[";
		std::string text;
		text.reserve(N * unit.size());
		for (size_t i = 0; i < N; i++)
			text += unit;
		long live0 = verif_alloc_live();
		verif_alloc_peak_reset();
		POut r = parse_fresh(text, 0, D, true);
		long peak = verif_alloc_peak() - live0;
		// memory bounded by the limit, not by the input: a handful of blocks per permitted level
		if (peak > 12L * D + 64)
			ctx.fail("memory-unbounded", "parsing " + str(N) + " nested levels with depth limit " + str(D) + " held " + str(peak) +
			                                 " allocations at once (more than the limit implies)");
		// the value enclosed by D containers starts at offset D*|unit|
		size_t at = (size_t)D * unit.size();
		if (N > (size_t)D)
		{
			if (r.err != json_tokener_error_depth)
				ctx.fail("not-depth-error", "hostile input of " + str(N) + " x " + quote(unit) + " with D=" + str(D) + ": " + r.show_());
			if (r.end < at || r.end > at + 1)
				ctx.fail("error-position", "hostile input: depth error at " + str(r.end) + " expected in [" + str(at) + "," + str(at + 1) + "]");
		}
		else if (r.err == json_tokener_success || r.err == json_tokener_error_depth)
			ctx.fail("hostile-shallow", "unterminated input of " + str(N) + " levels with D=" + str(D) + " gave " + r.show_());
		ctx.label("hostile_deep");
		ctx.nontrivial(hash_u64(N * 4096 + D * 2 + obj));
		ctx.note("hostile N=" + str(N) + " unit=" + unit + " D=" + str(D));
		leak.check(ctx);
		return;
	}
	int m;
	switch (c.pick({5, 1}))
	{
	case 0: m = D + c.irange(-2, 2); break;
	default: m = 2 * D; break;
	}
	if (m < 0)
		m = 0;
	if (m > 2100)
		m = 2100;
	TextGenOpts o;
	o.allow_nul_key = false;
	o.allow_huge_int = false;
	o.big_numbers = false;
	o.max_depth = m;            // nothing nests deeper than m
	o.max_nodes = 6 + c.len(30);
	TextGen g(c, o);
	int spine = m > 0 ? (c.coin(70) ? m : (int)c.range(0, m)) : 0;
	std::string text = g.document(spine);
	RefResult ref = ref_parse(text, true, true);
	if (!ref.ok)
		ctx.fail("HARNESS", "generator produced invalid text: " + ref.err);
	int rel = ref.max_depth - (D - 1);
	ctx.label(rel < 0 ? "below_limit" : rel == 0 ? "at_limit" : rel == 1 ? "one_over" : "far_over");
	ctx.note("D=" + str(D) + " max nesting " + str(ref.max_depth) + " text=" + quote(text, 500));
	check_doc(ctx, &c, text, D, ref);
	if (c.coin(10) && ref.v.k != Val::Null)
	{
		fd_check(ctx, text, D, ref.max_depth <= D - 1);
		ctx.label("from_fd_ex");
	}
	if (c.coin(8) && ref.v.k != Val::Null && !ref.toks.empty())
	{
		// the same document inflated with insignificant whitespace at 1..3 token boundaries so that it spans several
		// read blocks of json_object_from_fd_ex and the deep spot may lie in any of them
		std::string big = text;
		for (size_t i = 0, n = 1 + c.pickn(3); i < n; i++)
		{
			const RefTok &t = ref.toks[c.pickn(ref.toks.size())];
			size_t pad = (size_t)c.range(3000, 9000);
			// positions shift as we insert: insert from a fresh lexing each time
			RefResult r2 = ref_parse(big, true, true);
			if (!r2.ok || r2.toks.empty())
				break;
			const RefTok &t2 = r2.toks[c.pickn(r2.toks.size())];
			(void)t;
			big.insert(t2.start, std::string(pad, c.coin(50) ? ' ' : '\n'));
		}
		fd_check(ctx, big, D, ref.max_depth <= D - 1);
		POut m = parse_fresh(big, 0, D, true);
		if ((m.err == json_tokener_success) != (ref.max_depth <= D - 1))
			ctx.fail("inflated", "whitespace-inflated document judged differently: " + m.show_());
		ctx.label("from_fd_ex_multi_block");
	}
	if (rel >= -1 && rel <= 1)
		ctx.nontrivial(hash_str(text, hash_u64(D)));
	leak.check(ctx);
}
#include "engine_main.hpp"
