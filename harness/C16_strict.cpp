// C16 – strict mode rejects every documented extension anywhere; default mode accepts it.
// Metamorphic: valid document + one injected non-standard form at every possible position.
#include "common.hpp"
#include "refjson.hpp"
#include "textgen.hpp"
#include "parseutil.hpp"
using namespace vf;

const char *HARNESS_ID = "C16";
std::vector<ModeInfo> harness_modes()
{
	return {{"inject", 0, "generated valid document; every (extension kind, position) pair injected; strict / strict|allow-trailing / default compared"},
	        {"literal", 0, "replay: literal valid document, all injections"}};
}

namespace {
enum Kind { K_BLOCK_COMMENT, K_LINE_COMMENT, K_SQ_VALUE, K_SQ_NAME, K_TRAILING_COMMA, K_LITERAL_CASE, K_RAW_CONTROL,
	    K_LEADING_ZERO, K_EXP_NO_DIGITS, K_TRAILING_BYTES, K_NKINDS };
static const char *KNAME[] = {"block_comment", "line_comment", "single_quoted_value", "single_quoted_name", "trailing_comma",
                              "nonlowercase_literal", "raw_control_char", "leading_zero", "exponent_without_digits", "trailing_bytes"};

struct Inj {
	Kind k;
	std::string text;     // modified document
	std::string neutral;  // if non-empty: a standard text whose value the default-mode result must equal
	bool same_value;      // default-mode result must equal the original value
	size_t pos;           // where (for messages)
	int depth;
	bool in_name = false, first_or_last = false;
	size_t value_end = 0; // K_TRAILING_BYTES: where the value ends
};

static void build_injections(const std::string &doc, const RefResult &ref, std::vector<Inj> &out, uint64_t salt)
{
	const auto &tk = ref.toks;
	auto add = [&](Kind k, const std::string &t, bool same, size_t pos, int depth) -> Inj & {
		Inj i;
		i.k = k;
		i.text = t;
		i.same_value = same;
		i.pos = pos;
		i.depth = depth;
		out.push_back(i);
		return out.back();
	};
	// comments at every inter-token position (before each token and after the last)
	static const char *blk[] = {"/*c*/", "/**/", "/* * / */", "/*\n*/", "/***/", "/* x **/"};
	static const char *lin[] = {"//c\n", "//\n", "// */ \n"};
	for (size_t i = 0; i <= tk.size(); i++)
	{
		size_t p = i < tk.size() ? tk[i].start : ref.end;
		int d = i < tk.size() ? tk[i].depth : 0;
		std::string t = doc;
		t.insert(p, blk[(salt + i) % 6]);
		add(K_BLOCK_COMMENT, t, true, p, d);
		t = doc;
		t.insert(p, lin[(salt + i) % 3]);
		add(K_LINE_COMMENT, t, true, p, d);
		if (i == tk.size())
		{
			// a line comment may also be ended by the end of the input
			t = doc.substr(0, ref.end) + ((salt & 1) ? " // c" : "//c");
			add(K_LINE_COMMENT, t, true, ref.end, 0);
		}
	}
	for (size_t i = 0; i < tk.size(); i++)
	{
		const RefTok &t = tk[i];
		std::string body = doc.substr(t.start, t.end - t.start);
		if (t.k == RefTok::STRING && body.find('\'') == std::string::npos)
		{
			std::string m = doc;
			m[t.start] = '\'';
			m[t.end - 1] = '\'';
			// an escaped double quote stays a valid escape; a raw one cannot occur inside the token
			Inj &x = add(t.is_key ? K_SQ_NAME : K_SQ_VALUE, m, true, t.start, t.depth);
			x.in_name = t.is_key;
		}
		if (t.k == RefTok::STRING)
		{
			// raw control character right after the opening quote, or before the closing quote
			for (int where = 0; where < 2; where++)
			{
				unsigned ch = 1 + (unsigned)((salt + i * 7 + where * 3) % 31);
				std::string m = doc, n = doc;
				size_t p = where == 0 ? t.start + 1 : t.end - 1;
				m.insert(p, 1, (char)ch);
				char esc[8];
				snprintf(esc, sizeof esc, "\\u%04x", ch);
				n.insert(p, esc);
				Inj &x = add(K_RAW_CONTROL, m, false, p, t.depth);
				x.neutral = n;
				x.in_name = t.is_key;
			}
		}
		if ((t.k == RefTok::RBRACK || t.k == RefTok::RBRACE) && i > 0 && tk[i - 1].k != RefTok::LBRACK && tk[i - 1].k != RefTok::LBRACE)
		{
			std::string m = doc;
			m.insert(t.start, ",");
			Inj &x = add(K_TRAILING_COMMA, m, true, t.start, t.depth);
			x.first_or_last = true;
		}
		if (t.k == RefTok::LITERAL)
		{
			for (size_t j = 0; j < body.size(); j++)
			{
				std::string m = doc;
				m[t.start + j] = (char)(body[j] - 32);
				add(K_LITERAL_CASE, m, true, t.start + j, t.depth);
			}
			std::string m = doc;
			for (size_t j = 0; j < body.size(); j++)
				m[t.start + j] = (char)(body[j] - 32);
			add(K_LITERAL_CASE, m, true, t.start, t.depth);
		}
		if (t.k == RefTok::NUMBER)
		{
			size_t p = t.start + (body[0] == '-' ? 1 : 0);
			for (int nz = 1; nz <= 2; nz++)
			{
				std::string m = doc;
				m.insert(p, std::string(nz, '0'));
				add(K_LEADING_ZERO, m, true, p, t.depth);
			}
			if (body.find('e') == std::string::npos && body.find('E') == std::string::npos)
			{
				static const char *ex[] = {"e", "E", "e+", "e-", "E+"};
				std::string m = doc;
				m.insert(t.end, ex[(salt + i) % 5]);
				add(K_EXP_NO_DIGITS, m, false, t.end, t.depth);
			}
		}
	}
	// trailing non-whitespace after the top-level value
	{
		// (form feed, vertical tab, DEL and NBSP are not JSON whitespace: RFC 8259 allows space, \t, \n, \r only)
		static const char *junk[] = {"x", "]", "}", ",", "1", "\"s\"", "null", "{", ":", "[1]", "\xc3\xa4", "-", "\f", "\v", "\x7f", "\xc2\xa0", "\x1f", "\x08"};
		bool needs_sep = !tk.empty() && (tk.back().k == RefTok::NUMBER || tk.back().k == RefTok::LITERAL);
		for (size_t j = 0; j < 18; j++)
		{
			// after a number or literal a separating blank keeps the junk from extending the token - except that a
			// byte which cannot continue a number may follow a top-level number directly ("12x")
			bool numchar = strchr("0123456789.eE+-", junk[j][0]) != nullptr;
			bool direct_ok = !tk.empty() && tk.back().k == RefTok::NUMBER && !numchar && junk[j][0] != 'I' && junk[j][0] != 'i' && junk[j][0] != '/';
			bool sep = (needs_sep && !(direct_ok && (salt + j) % 2 == 0)) || (!needs_sep && (salt + j) % 3 == 0);
			std::string m = doc.substr(0, ref.end) + (sep ? " " : "") + junk[j];
			Inj &x = add(K_TRAILING_BYTES, m, true, ref.end, 0);
			x.value_end = ref.end;
		}
	}
}

static void check_doc(Ctx &ctx, const std::string &doc, uint64_t salt)
{
	RefResult ref = ref_parse(doc, true, true);
	if (!ref.ok)
		ctx.fail("HARNESS", "document is not valid JSON: " + ref.err + " " + quote(doc));
	if (ref.has_nul_key || ref.has_huge_int)
		return;
	// control: the unmodified document passes strict mode with the right value
	{
		POut r = parse_fresh(doc, JSON_TOKENER_STRICT, 32, true);
		std::string why;
		if (r.err != json_tokener_success || !same_val(ref.v, r.v, why, DBL_JUDGE))
			ctx.fail("control", "strict mode does not accept the unmodified document: " + r.show_() + " " + why + " doc=" + quote(doc));
	}
	std::vector<Inj> inj;
	build_injections(doc, ref, inj, salt);
	bool nt = false;
	// one strict tokener used for every injected text of this document, reset in between (the usual way to reuse one)
	struct Reused {
		json_tokener *t = json_tokener_new();
		~Reused() { json_tokener_free(t); }
	} reused;
	json_tokener_set_flags(reused.t, JSON_TOKENER_STRICT);
	// wide documents have thousands of injection sites and every site costs several parses of the whole text:
	// beyond 160 sites a salt-dependent subset (every n-th site, first and last always) is checked
	size_t stride = inj.size() > 160 ? (inj.size() + 159) / 160 : 1;
	for (size_t xi = 0; xi < inj.size(); xi++)
	{
		if (stride > 1 && xi % stride != salt % stride && xi + 1 != inj.size() && xi != 0)
			continue;
		auto &x = inj[xi];
		ctx.label(KNAME[x.k]);
		if (x.depth >= 1 || x.in_name || x.first_or_last)
			nt = true;
		std::string where = std::string(KNAME[x.k]) + " at offset " + str(x.pos) + " (depth " + str(x.depth) + "): " + quote(x.text, 300) +
		                    " (original " + quote(doc, 200) + ")";
		// strict
		POut s = parse_fresh(x.text, JSON_TOKENER_STRICT, 32, true);
		if (s.err == json_tokener_success)
			ctx.fail(std::string("strict-accepts-") + KNAME[x.k], "strict mode accepted " + where + " -> " + s.show_());
		{
			json_tokener_reset(reused.t);
			POut sr = parse_call(reused.t, x.text, true);
			if (sr.err == json_tokener_success)
				ctx.fail(std::string("strict-accepts-") + KNAME[x.k], "a strict tokener that was reset and reused accepted " + where + " -> " + sr.show_());
		}
		// strict stays strict when combined with the UTF-8 validation flag (documents here are valid UTF-8 unless the
		// injected bytes are not: then rejection is right anyway)
		POut su = parse_fresh(x.text, JSON_TOKENER_STRICT | JSON_TOKENER_VALIDATE_UTF8, 32, true);
		if (su.err == json_tokener_success)
			ctx.fail(std::string("strict-accepts-") + KNAME[x.k], "strict|validate-utf8 mode accepted " + where + " -> " + su.show_());
		POut sa = parse_fresh(x.text, JSON_TOKENER_STRICT | JSON_TOKENER_ALLOW_TRAILING_CHARS, 32, true);
		if (x.k == K_TRAILING_BYTES)
		{
			std::string why;
			if (sa.err != json_tokener_success || !same_val(ref.v, sa.v, why, DBL_JUDGE))
				ctx.fail("allow-trailing", "strict|allow-trailing did not accept " + where + " -> " + sa.show_() + " " + why);
			if (sa.end < x.value_end || sa.end > x.value_end + 1)
				ctx.fail("allow-trailing-end", "strict|allow-trailing reported end " + str(sa.end) + ", the value ends at " + str(x.value_end) + ": " + where);
		}
		else if (x.pos >= ref.end && (x.k == K_BLOCK_COMMENT || x.k == K_LINE_COMMENT))
		{
			// a comment behind the complete top-level value is "trailing characters": allow-trailing may accept it
		}
		else if (sa.err == json_tokener_success)
			ctx.fail(std::string("strict-accepts-") + KNAME[x.k], "strict|allow-trailing mode accepted " + where + " -> " + sa.show_());
		// default
		POut d = parse_fresh(x.text, 0, 32, true);
		if (d.err != json_tokener_success)
			ctx.fail(std::string("default-rejects-") + KNAME[x.k], "default mode rejected " + where + " -> " + d.show_());
		if (x.text.find('\0') == std::string::npos)
		{
			// the convenience entry point is default mode too
			enum json_tokener_error pe = json_tokener_error_depth;
			json_object *o = json_tokener_parse_verbose(x.text.c_str(), &pe);
			Val pv = dump(o);
			json_object_put(o);
			std::string pwhy;
			if (pe != json_tokener_success || !same_val(d.v, pv, pwhy, DBL_BITS))
				ctx.fail(std::string("default-rejects-") + KNAME[x.k], "json_tokener_parse_verbose disagrees with default-mode json_tokener_parse_ex on " + where + ": " +
				                                                          json_tokener_error_desc(pe) + " " + pwhy);
		}
		std::string why;
		if (x.same_value && !same_val(ref.v, d.v, why, DBL_JUDGE))
			ctx.fail(std::string("default-value-") + KNAME[x.k], "default mode value changed by " + where + ": " + why);
		if (!x.neutral.empty())
		{
			RefResult nr = ref_parse(x.neutral);
			if (!nr.ok)
				ctx.fail("HARNESS", "neutral form invalid");
			if (!same_val(nr.v, d.v, why, DBL_JUDGE))
				ctx.fail(std::string("default-value-") + KNAME[x.k], "default mode value wrong for " + where + ": " + why);
		}
		if (x.k == K_TRAILING_BYTES && parse_fresh(x.text, 0, 32, false).err == json_tokener_success)
		{
			// default mode through the descriptor entry point: trailing bytes after the value are ignored there too
			json_object *fo = nullptr;
			if (parse_via_fd(x.text, (int)(xi & 1) * 3, 0, &fo))
			{
				Val fv = dump(fo);
				bool has = fo != nullptr;
				json_object_put(fo);
				std::string fwhy;
				if (has != (ref.v.k != Val::Null) || !same_val(ref.v, fv, fwhy, DBL_JUDGE))
					ctx.fail("default-rejects-trailing_bytes", std::string(xi & 1 ? "json_object_from_file" : "json_object_from_fd") + " (default mode) " +
					                                               (has ? "returns another value for " : "rejects ") + where + " " + fwhy);
			}
		}
		if (x.k == K_TRAILING_BYTES && (d.end < x.value_end || d.end > x.value_end + 1))
			ctx.fail("default-trailing-end", "default mode reported end " + str(d.end) + ", the value ends at " + str(x.value_end) + ": " + where);
	}
	if (nt)
		ctx.nontrivial(hash_str(doc, salt));
}
} // namespace

void run_case(Choices &c, Ctx &ctx)
{
	LeakScope leak;
	std::string doc;
	uint64_t salt;
	if (ctx.mode == "literal")
	{
		salt = c.byte();
		while (c.pos < c.bp->size())
			doc += (char)c.byte();
	}
	else
	{
		TextGenOpts o;
		o.allow_nul_key = false;
		o.allow_huge_int = false; // beyond-64-bit integers are rejected in strict mode by design (C01)
		o.big_numbers = c.coin(5);
		o.max_depth = 5;
		o.max_nodes = 3 + c.len(16);
		TextGen g(c, o);
		doc = g.document(c.coin(20) ? (int)c.range(1, 5) : 0);
		salt = c.range(0, 255);
	}
	ctx.note("doc=" + quote(doc, 800) + " salt=" + str(salt));
	check_doc(ctx, doc, salt);
	leak.check(ctx);
}
#include "engine_main.hpp"
