// C19 – the print buffer holds exactly what was written, NUL-terminated, in bounds.
// Stateful history on one printbuf against a byte-array model (DESIGN 6/C19).
#include "common.hpp"
#include <climits>
using namespace vf;

const char *HARNESS_ID = "C19";
std::vector<ModeInfo> harness_modes()
{
	return {{"ops", 0, "random operation histories on one printbuf vs a byte-array model"},
	        {"sprintf_len", 6000, "sprintbuf of every output length 0..5999 at 4 starting fill levels"},
	        {"memset_edges", 200000, "printbuf_memset at every (fill, offset, len) around the 32-byte capacity"},
	        {"huge", 6, "a buffer grown past 1 GiB (half of INT_MAX): small appends still succeed, oversized ones are refused"}};
}

namespace {
struct H {
	Ctx &ctx;
	printbuf *pb;
	std::string model;
	std::string trace;
	uint64_t h = 0;
	bool grew = false, gap = false, big = false, refused = false, atcap = false, selfarg = false;
	H(Ctx &c) : ctx(c) { pb = printbuf_new(); }
	void log(const std::string &s)
	{
		h = hash_str(s, h ? h : 0xcbf29ce484222325ULL);
		if (ctx.verbose)
			trace += s + "\n";
	}
	void check(bool append_op, const char *opname)
	{
		if (pb->bpos != (int)model.size() || printbuf_length(pb) != (int)model.size())
			ctx.fail("length", std::string(opname) + ": bpos=" + str(pb->bpos) + " printbuf_length=" + str(printbuf_length(pb)) + " model length=" + str(model.size()));
		if (pb->bpos > pb->size || pb->size <= 0)
			ctx.fail("bounds", std::string(opname) + ": bpos=" + str(pb->bpos) + " size=" + str(pb->size));
		if (memcmp(pb->buf, model.data(), model.size()) != 0)
		{
			size_t i = 0;
			while (i < model.size() && pb->buf[i] == model[i])
				i++;
			ctx.fail("content", std::string(opname) + ": byte " + str(i) + " differs: buf=" +
			                        str((int)(unsigned char)pb->buf[i]) + " model=" + str((int)(unsigned char)model[i]));
		}
		if (append_op)
		{
			if (pb->bpos >= pb->size)
				ctx.fail("nul-room", std::string(opname) + ": no room for the NUL, bpos=" + str(pb->bpos) + " size=" + str(pb->size));
			if (pb->buf[pb->bpos] != 0)
				ctx.fail("nul", std::string(opname) + ": appended text not followed by NUL");
		}
	}
	void unchanged(int oldsize, const char *opname)
	{
		// a refused request leaves (bpos, bytes) unchanged
		check(false, opname);
		(void)oldsize;
	}
	void memappend(const std::string &s, int variant)
	{
		int before = pb->size;
		int r;
		if (variant == 1)
		{
			printbuf *p = pb;
			int n = (int)s.size();
			const char *src = s.data();
			printbuf_memappend_fast(p, src, n);
			r = n;
		}
		else
			r = printbuf_memappend(pb, s.data(), (int)s.size());
		model += s;
		log((variant ? "memappend_fast " : "memappend ") + str(s.size()));
		if (r != (int)s.size())
			ctx.fail("retval", "printbuf_memappend returned " + str(r) + " for size " + str(s.size()));
		if (pb->size != before)
			grew = true;
		check(true, "memappend");
	}
	void strappend(int which)
	{
		// the string-literal macro (length from sizeof)
		int before = pb->size, r;
		const char *lit;
		switch (which)
		{
		case 0: r = printbuf_strappend(pb, ""); lit = ""; break;
		case 1: r = printbuf_strappend(pb, "x"); lit = "x"; break;
		case 2: r = printbuf_strappend(pb, "null"); lit = "null"; break;
		default:
			r = printbuf_strappend(pb, "a string literal that is longer than the initial capacity of a print buffer");
			lit = "a string literal that is longer than the initial capacity of a print buffer";
			break;
		}
		model += lit;
		log(std::string("strappend ") + lit);
		if (r != (int)strlen(lit))
			ctx.fail("retval", "printbuf_strappend returned " + str(r) + " for a literal of " + str(strlen(lit)) + " bytes");
		if (pb->size != before)
			grew = true;
		check(true, "strappend");
	}
	void do_memset(int offset, int ch, int len)
	{
		int before = pb->size;
		int eff = offset == -1 ? (int)model.size() : offset;
		if ((long)eff + len == before)
			atcap = true;
		int r = printbuf_memset(pb, offset, ch, len);
		log("memset off=" + str(offset) + " c=" + str(ch) + " len=" + str(len));
		if (r != 0)
			ctx.fail("retval", "printbuf_memset(" + str(offset) + "," + str(len) + ") returned " + str(r));
		if ((size_t)eff > model.size())
		{
			model.resize(eff, '\0');
			gap = true;
		}
		if (model.size() < (size_t)eff + len)
			model.resize((size_t)eff + len);
		if (len > 0)
			memset(&model[eff], ch, (size_t)len);
		if (pb->size != before)
			grew = true;
		check(false, "memset");
	}
	void do_sprintf(size_t n, int variant)
	{
		std::string s(n, 'x');
		for (size_t i = 0; i < n; i++)
			s[i] = (char)('a' + (i * 7 + n) % 26);
		int before = pb->size, r;
		if (variant == 0)
			r = sprintbuf(pb, "%s", s.c_str());
		else if (variant == 1)
		{
			r = sprintbuf(pb, "%s%d", s.c_str(), 42);
			s += "42";
		}
		else
		{
			std::string half = s.substr(0, n / 2), rest = s.substr(n / 2);
			r = sprintbuf(pb, "%s%s", half.c_str(), rest.c_str());
		}
		model += s;
		log("sprintbuf outlen=" + str(s.size()));
		if (r != (int)s.size())
			ctx.fail("retval", "sprintbuf returned " + str(r) + " for output of " + str(s.size()) + " bytes");
		if (s.size() >= 128)
			big = true;
		if (pb->size != before)
			grew = true;
		check(true, "sprintbuf");
	}
	void do_sprintf_self(int variant, int pad)
	{
		std::string old(model.c_str()); // "%s" stops at the first NUL
		char num[256];
		snprintf(num, sizeof num, "%0*d", pad, 7);
		std::string add;
		int before = pb->size, r;
		if (variant == 0)
		{
			r = sprintbuf(pb, "%s", pb->buf);
			add = old;
		}
		else if (variant == 1)
		{
			r = sprintbuf(pb, "%0*d<%s>", pad, 7, pb->buf);
			add = std::string(num) + "<" + old + ">";
		}
		else
		{
			r = sprintbuf(pb, "[%s|%s]", pb->buf, pb->buf);
			add = "[" + old + "|" + old + "]";
		}
		model += add;
		log("sprintbuf with the buffer's own text as argument, outlen=" + str(add.size()));
		if (r != (int)add.size())
			ctx.fail("retval", "sprintbuf with its own text as argument returned " + str(r) + " for output of " + str(add.size()) + " bytes");
		if (add.size() >= 128)
			big = true;
		if (pb->size != before)
			grew = true;
		selfarg = true;
		check(true, "sprintbuf(self)");
	}
	void reset()
	{
		printbuf_reset(pb);
		model.clear();
		log("reset");
		check(true, "reset");
	}
	void refuse_memappend(int size)
	{
		int osz = pb->size;
		static const char one[1] = {'q'};
		int r = printbuf_memappend(pb, one, size);
		log("memappend(refuse) size=" + str(size));
		if (r != -1)
			ctx.fail("not-refused", "printbuf_memappend with size " + str(size) + " at bpos " + str(model.size()) + " returned " + str(r));
		refused = true;
		unchanged(osz, "memappend(refused)");
	}
	void refuse_memset(int offset, int len)
	{
		int osz = pb->size;
		int r = printbuf_memset(pb, offset, 'z', len);
		log("memset(refuse) off=" + str(offset) + " len=" + str(len));
		if (r != -1)
			ctx.fail("not-refused", "printbuf_memset(off=" + str(offset) + ", len=" + str(len) + ") returned " + str(r));
		refused = true;
		unchanged(osz, "memset(refused)");
	}
	void finish()
	{
		printbuf_free(pb);
		pb = nullptr;
	}
};

static int near_len(Choices &c, int target)
{
	// lengths around a boundary
	int d = c.irange(-3, 3);
	int v = target + d;
	return v < 0 ? 0 : v;
}
} // namespace

void run_case(Choices &c, Ctx &ctx)
{
	LeakScope leak;
	if (ctx.mode == "sprintf_len")
	{
		uint64_t idx = c.bits(8);
		size_t n = idx % 1500;
		int fill = (int)(idx / 1500); // 0..3
		H h(ctx);
		static const int fills[4] = {0, 31, 100, 4000};
		if (fills[fill])
			h.memappend(std::string(fills[fill], 'p'), 0);
		h.do_sprintf(n, 0);
		h.do_sprintf(n, 1);
		if (n >= 127 && n <= 129)
			ctx.nontrivial(idx);
		ctx.note("sprintbuf of " + str(n) + " bytes after fill " + str(fills[fill]));
		h.finish();
		leak.check(ctx);
		return;
	}
	if (ctx.mode == "huge")
	{
		// The growth policy changes once the capacity exceeds INT_MAX/2; only a real >1 GiB buffer gets there.
		uint64_t idx = c.bits(8) % 6;
		static const int fills[3] = {(1 << 30) + 5, (1 << 30) + (1 << 28), 0x5fffffff};
		int fill = fills[idx % 3];
		{
			// needs ~4.5 GiB (buffer, its realloc copy, the model); on a machine without that, explore nothing rather than
			// mistake an out-of-memory refusal for a defect
			long avail_kb = 0;
			if (FILE *f = fopen("/proc/meminfo", "r"))
			{
				char line[256];
				while (fgets(line, sizeof line, f))
					if (sscanf(line, "MemAvailable: %ld kB", &avail_kb) == 1)
						break;
				fclose(f);
			}
			if (avail_kb < 12L * 1024 * 1024)
			{
				ctx.label("huge_skipped_low_memory");
				ctx.note("skipped: MemAvailable " + str(avail_kb) + " kB");
				return;
			}
		}
		H h(ctx);
		h.model.reserve((size_t)fill + 200000); // no doubling: the sanitizer's allocation limit is 2 GiB
		h.memappend("head", 0);
		h.do_memset(-1, 'h', fill);
		if (idx / 3 == 0)
		{
			h.memappend("0123456789", 0);
			h.do_sprintf(200, 0);
			h.do_memset(-1, 'x', 100);
			h.memappend("tail", 0);
		}
		else
		{
			h.do_memset(-1, 'x', 1);
			h.do_sprintf(3, 1);
			h.memappend(std::string(70000, 'y'), 0);
		}
		h.refuse_memappend(INT_MAX - h.pb->bpos);
		h.refuse_memset(-1, INT_MAX - h.pb->bpos);
		h.refuse_memset(INT_MAX - 4, 8);
		h.memappend("end", 0);
		ctx.label("huge_buffer");
		ctx.nontrivial(idx);
		ctx.note("buffer filled to " + str(fill) + " bytes, then small appends and must-refuse sizes");
		h.finish();
		leak.check(ctx);
		return;
	}
	if (ctx.mode == "memset_edges")
	{
		uint64_t idx = c.bits(8);
		int fill = (int)(idx % 40);           // 0..39
		int off = (int)((idx / 40) % 50) - 1; // -1..48
		int len = (int)(idx / 2000);          // 0..99
		H h(ctx);
		if (fill)
			h.memappend(std::string(fill, 'p'), 0);
		h.do_memset(off, 'm', len);
		h.memappend("tail", 0);
		h.do_memset(-1, 'n', len);
		int eff = off == -1 ? fill : off;
		if (eff + len >= 31 && eff + len <= 33)
			ctx.nontrivial(idx);
		ctx.note("fill " + str(fill) + " memset off=" + str(off) + " len=" + str(len));
		h.finish();
		leak.check(ctx);
		return;
	}
	H h(ctx);
	size_t nops = 1 + c.len(40);
	for (size_t i = 0; i < nops; i++)
	{
		SpanGuard g(c);
		int room = h.pb->size - h.pb->bpos; // free bytes incl. the NUL slot
		// keep the honest data volume bounded (DESIGN 6/C19 B): past 128 KiB only reset/refusals/small ops
		bool big = h.pb->size > (1 << 17);
		switch (big ? c.pick({10, 5, 0, 5, 30, 10, 10}) : c.pick({30, 10, 20, 15, 5, 6, 6}))
		{
		case 0: { // memappend
			int n;
			switch (big ? 0 : c.pick({3, 3, 2, 1}))
			{
			case 0: n = (int)c.len(40); break;
			case 1: n = near_len(c, room - 1); break;
			case 2: n = near_len(c, h.pb->size); break;
			default: n = (int)c.range(0, 70000); break;
			}
			std::string s = c.bytes((size_t)std::min(n, 8));
			s.resize(n, (char)('A' + i % 26));
			h.memappend(s, 0);
			break;
		}
		case 1: { // memappend_fast macro
			if (c.coin(25))
			{
				h.strappend((int)c.pickn(4));
				break;
			}
			int n = (!big && c.coin(50)) ? near_len(c, room - 1) : (int)c.len(64);
			h.memappend(std::string(n, (char)('a' + i % 26)), 1);
			break;
		}
		case 2: { // memset
			int off;
			int bpos = h.pb->bpos, size = h.pb->size;
			switch (c.pick({3, 2, 2, 2, 2, 1}))
			{
			case 0: off = -1; break;
			case 1: off = 0; break;
			case 2: off = bpos ? (int)c.range(0, bpos) : 0; break;
			case 3: off = bpos + (int)c.range(1, 40); break;
			case 4: off = size + c.irange(-2, 2); break;
			default: off = (int)c.range(0, 5000); break;
			}
			if (off < -1)
				off = 0;
			int eff = off == -1 ? bpos : off;
			int len;
			switch (c.pick({3, 3, 1}))
			{
			case 0: len = (int)c.len(50); break;
			case 1: len = near_len(c, size - eff); break;
			default: len = (int)c.range(0, 40000); break;
			}
			h.do_memset(off, (int)c.range(0, 255), len);
			break;
		}
		case 3: { // sprintbuf
			if (c.coin(10) && !big && h.model.size() < 3000 && h.pb->bpos < h.pb->size && h.pb->buf[h.pb->bpos] == 0)
			{
				// an argument that points into the print buffer itself (the text is terminated, so "%s" is well defined):
				// the output must be formed from the old contents, wherever the buffer moves while growing
				h.do_sprintf_self((int)c.pickn(3), (int)c.range(0, 200));
				break;
			}
			size_t n;
			switch (c.pick({3, 4, 2}))
			{
			case 0: n = c.len(126); break;
			case 1: n = (size_t)c.range(125, 131); break;
			default: n = (size_t)c.range(129, 5000); break;
			}
			h.do_sprintf(n, (int)c.pickn(3));
			break;
		}
		case 4: h.reset(); break;
		case 5: { // memappend that must be refused
			int bpos = h.pb->bpos;
			int sz;
			switch (c.pick({1, 1, 1}))
			{
			case 0: sz = -(int)c.range(1, 1000); break;
			case 1: sz = INT_MIN + (int)c.range(0, 3); break;
			default: sz = INT_MAX - bpos - 1 + (int)c.range(1, (uint64_t)bpos + 1); break; // > INT_MAX-bpos-1
			}
			h.refuse_memappend(sz);
			break;
		}
		default: { // memset that must be refused
			switch (c.pick({1, 1, 1}))
			{
			case 0: h.refuse_memset((int)c.range(0, 100), -(int)c.range(1, 1000)); break;
			case 1: h.refuse_memset(-2 - (int)c.range(0, 1000), (int)c.range(0, 100)); break;
			default: {
				int off = (int)c.range(1, 100000);
				int len = INT_MAX - off + (int)c.range(1, (uint64_t)off); // offset+len > INT_MAX
				h.refuse_memset(off, len);
				break;
			}
			}
			break;
		}
		}
	}
	if (h.grew)
		ctx.label("grew");
	if (h.gap)
		ctx.label("memset_gap");
	if (h.big)
		ctx.label("sprintbuf_ge128");
	if (h.refused)
		ctx.label("refused");
	if (h.atcap)
		ctx.label("memset_ends_at_capacity");
	if (h.selfarg)
		ctx.label("sprintbuf_argument_inside_the_buffer");
	if (h.grew && (h.gap || h.big || h.refused || h.atcap))
		ctx.nontrivial(h.h);
	ctx.note(h.trace);
	h.finish();
	leak.check(ctx);
}
#include "engine_main.hpp"
