// C17 – the tree visitor performs the documented traversal for any tree and callback.
#include "common.hpp"
#include "treegen.hpp"
using namespace vf;

const char *HARNESS_ID = "C17";
std::vector<ModeInfo> harness_modes()
{
	return {{"gen", 0, "generated trees x generated return-code schedules vs a reference traversal written from json_visit.h"},
	        {"single", 0, "one fixed-shape family: every (call number, code) single deviation on generated small trees"}};
}

namespace {
struct RNode {
	json_object *p = nullptr;
	bool container = false;
	bool is_array = false;
	std::vector<std::pair<std::string, RNode>> kids; // key (objects) or "" (arrays)
};
static RNode mirror(const Val &v, json_object *j)
{
	RNode r;
	r.p = j;
	if (v.k == Val::Arr)
	{
		r.container = r.is_array = true;
		for (size_t i = 0; i < v.a.size(); i++)
			r.kids.emplace_back("", mirror(v.a[i], json_object_array_get_idx(j, i)));
	}
	else if (v.k == Val::Obj)
	{
		r.container = true;
		for (auto &kv : v.o)
		{
			json_object *c = nullptr;
			json_object_object_get_ex(j, kv.first.c_str(), &c);
			r.kids.emplace_back(kv.first, mirror(kv.second, c));
		}
	}
	return r;
}
struct Entry {
	json_object *p;
	int flags;
	json_object *parent;
	bool has_key, has_idx;
	std::string key;
	size_t idx;
	bool operator==(const Entry &o) const
	{
		return p == o.p && flags == o.flags && parent == o.parent && has_key == o.has_key && has_idx == o.has_idx && key == o.key && idx == o.idx;
	}
	std::string show_() const
	{
		char b[64];
		snprintf(b, sizeof b, "%p", (void *)p);
		std::string s = std::string("node ") + b + (flags ? " SECOND" : "");
		if (has_key)
			s += " key=" + quote(key, 30);
		if (has_idx)
			s += " idx=" + str(idx);
		if (!parent)
			s += " (no parent)";
		return s;
	}
};
struct Sched {
	std::map<size_t, int> codes;
	int at(size_t n) const
	{
		auto it = codes.find(n);
		return it == codes.end() ? JSON_C_VISIT_RETURN_CONTINUE : it->second;
	}
};
struct Rec {
	const Sched *s;
	std::vector<Entry> log;
	bool reached_nondefault = false;
	size_t nondefault = 0;
};
static size_t g_nondefault;
static int userfunc(json_object *jso, int flags, json_object *parent, const char *key, size_t *idx, void *arg)
{
	Rec *r = (Rec *)arg;
	Entry e;
	e.p = jso;
	e.flags = flags;
	e.parent = parent;
	e.has_key = key != nullptr;
	e.has_idx = idx != nullptr;
	e.key = key ? key : "";
	e.idx = idx ? *idx : 0;
	size_t n = r->log.size();
	r->log.push_back(e);
	int c = r->s->at(n);
	if (c != JSON_C_VISIT_RETURN_CONTINUE)
	{
		r->reached_nondefault = true;
		r->nondefault++;
	}
	return c;
}
// reference traversal (json_visit.h); returns CONTINUE/SKIP/POP/STOP/ERROR
static int ref_visit(const RNode &n, json_object *parent, bool parent_is_array, const std::string &key, size_t idx, Rec &r, bool is_root)
{
	Entry e;
	e.p = n.p;
	e.flags = 0;
	e.parent = parent;
	e.has_key = !is_root && !parent_is_array;
	e.has_idx = !is_root && parent_is_array;
	e.key = e.has_key ? key : "";
	e.idx = e.has_idx ? idx : 0;
	size_t cn = r.log.size();
	r.log.push_back(e);
	int c = r.s->at(cn);
	switch (c)
	{
	case JSON_C_VISIT_RETURN_CONTINUE: break;
	case JSON_C_VISIT_RETURN_SKIP:
	case JSON_C_VISIT_RETURN_POP:
	case JSON_C_VISIT_RETURN_STOP:
	case JSON_C_VISIT_RETURN_ERROR: return c;
	default: return JSON_C_VISIT_RETURN_ERROR;
	}
	if (!n.container)
		return JSON_C_VISIT_RETURN_CONTINUE;
	for (size_t i = 0; i < n.kids.size(); i++)
	{
		int cr = ref_visit(n.kids[i].second, n.p, n.is_array, n.kids[i].first, i, r, false);
		if (cr == JSON_C_VISIT_RETURN_POP)
			break;
		if (cr == JSON_C_VISIT_RETURN_STOP || cr == JSON_C_VISIT_RETURN_ERROR)
			return cr;
	}
	e.flags = JSON_C_VISIT_SECOND;
	cn = r.log.size();
	r.log.push_back(e);
	c = r.s->at(cn);
	switch (c)
	{
	case JSON_C_VISIT_RETURN_CONTINUE:
	case JSON_C_VISIT_RETURN_SKIP:
	case JSON_C_VISIT_RETURN_POP: return JSON_C_VISIT_RETURN_CONTINUE;
	case JSON_C_VISIT_RETURN_STOP:
	case JSON_C_VISIT_RETURN_ERROR: return c;
	default: return JSON_C_VISIT_RETURN_ERROR;
	}
}
static const char *cname(int c)
{
	switch (c)
	{
	case JSON_C_VISIT_RETURN_CONTINUE: return "CONTINUE";
	case JSON_C_VISIT_RETURN_SKIP: return "SKIP";
	case JSON_C_VISIT_RETURN_POP: return "POP";
	case JSON_C_VISIT_RETURN_STOP: return "STOP";
	case JSON_C_VISIT_RETURN_ERROR: return "ERROR";
	default: return "INVALID";
	}
}
static void compare(Ctx &ctx, const Val &tree, const Sched &s, bool &reached)
{
	json_object *j = build(tree);
	RNode root = mirror(tree, j);
	Rec ref;
	ref.s = &s;
	int rr = ref_visit(root, nullptr, false, "", 0, ref, true);
	int want = (rr == JSON_C_VISIT_RETURN_ERROR) ? -1 : 0;
	Rec got;
	got.s = &s;
	// the library prints a diagnostic on stderr for invalid codes; keep the harness quiet
	int rc = json_c_visit(j, 0, userfunc, &got);
	reached = got.reached_nondefault;
	g_nondefault = got.nondefault;
	std::string sd;
	for (auto &kv : s.codes)
		sd += "call " + str(kv.first) + "->" + cname(kv.second) + (strcmp(cname(kv.second), "INVALID") == 0 ? "(" + str(kv.second) + ")" : "") + " ";
	ctx.note("tree=" + show(tree, 500) + "\nschedule: " + sd + "\nreference: " + str(ref.log.size()) + " calls, result " + str(want));
	if ((want < 0) != (rc < 0) || (want == 0 && rc != 0))
	{
		json_object_put(j);
		ctx.fail("result", "json_c_visit returned " + str(rc) + ", reference traversal gives " + str(want) + " (schedule " + sd + ") tree=" + show(tree, 300));
	}
	size_t n = std::min(ref.log.size(), got.log.size());
	for (size_t i = 0; i < n; i++)
		if (!(ref.log[i] == got.log[i]))
		{
			std::string a = got.log[i].show_(), b = ref.log[i].show_();
			json_object_put(j);
			ctx.fail("call-sequence", "call #" + str(i) + " differs: visitor made " + a + ", reference expects " + b + " (schedule " + sd + ") tree=" + show(tree, 300));
		}
	if (ref.log.size() != got.log.size())
	{
		size_t a = got.log.size(), b = ref.log.size();
		json_object_put(j);
		ctx.fail("call-count", "visitor made " + str(a) + " calls, reference " + str(b) + " (schedule " + sd + ") tree=" + show(tree, 300));
	}
	// a traversal leaves nothing behind in the tree: visiting the same tree again, this time with CONTINUE everywhere,
	// gives the full reference traversal whatever the first one returned and wherever it stopped
	{
		Sched all;
		Rec ref2, got2;
		ref2.s = &all;
		got2.s = &all;
		(void)ref_visit(root, nullptr, false, "", 0, ref2, true);
		int rc2 = json_c_visit(j, 0, userfunc, &got2);
		bool same = rc2 == 0 && ref2.log.size() == got2.log.size();
		for (size_t i = 0; same && i < ref2.log.size(); i++)
			same = ref2.log[i] == got2.log[i];
		if (!same)
		{
			size_t a = got2.log.size(), b = ref2.log.size();
			json_object_put(j);
			ctx.fail("second-traversal", "a second traversal of the same tree (CONTINUE everywhere) returned " + str(rc2) + " after " + str(a) + " calls, the reference makes " + str(b) +
			                                 " calls and returns 0; the first traversal used schedule " + sd + " tree=" + show(tree, 300));
		}
	}
	json_object_put(j);
}
static int gen_code(Choices &c)
{
	switch (c.pick({10, 25, 25, 15, 12, 13}))
	{
	case 0: return JSON_C_VISIT_RETURN_CONTINUE;
	case 1: return JSON_C_VISIT_RETURN_SKIP;
	case 2: return JSON_C_VISIT_RETURN_POP;
	case 3: return JSON_C_VISIT_RETURN_STOP;
	case 4: return JSON_C_VISIT_RETURN_ERROR;
	default: {
		static const int inv[] = {1, -2, 12345, 2, 7546, 768, INT32_MAX, INT32_MIN};
		return inv[c.pickn(8)];
	}
	}
}
} // namespace

void harness_init(const std::string &)
{
	// json_visit.c reports invalid return codes on stderr; thousands of them are expected here
	if (!getenv("VERIF_KEEP_STDERR"))
	{
		// only the stdio stream: sanitizer reports go to fd 2 directly and stay visible
		FILE *f = fopen("/dev/null", "w");
		if (f)
			stderr = f;
	}
}

void run_case(Choices &c, Ctx &ctx)
{
	LeakScope leak;
	TreeGenOpts o;
	o.max_depth = c.coin(15) ? 12 : 5;
	o.max_nodes = 3 + c.len(60);
	o.any_bytes = false;
	o.retained_text = false;
	TreeGen g(c, o);
	Val tree = g.root();
	if (c.coin(12))
	{
		// member names of 100..400 bytes
		Val w = Val::obj();
		for (size_t i = 0, n = 1 + c.pickn(3); i < n; i++)
			w.set(std::string(c.range(100, 400), (char)('a' + i)) + str(i), i == 0 ? tree : Val::i64((int64_t)i));
		tree = w;
		ctx.label("long_member_name");
	}
	if (c.coin(10))
	{
		// a spine of 33..70 containers around the generated tree (deeper than the parser's default limit: built through the API)
		size_t depth = (size_t)c.range(30, 70);
		for (size_t d = 0; d < depth; d++)
		{
			if (c.coin(50))
			{
				Val a = Val::arr();
				if (c.coin(30))
					a.a.push_back(Val::i64((int64_t)d));
				a.a.push_back(tree);
				if (c.coin(30))
					a.a.push_back(Val::null());
				tree = a;
			}
			else
			{
				Val ob = Val::obj();
				if (c.coin(30))
					ob.set("before", Val::i64((int64_t)d));
				ob.set("k" + str(d), tree);
				if (c.coin(30))
					ob.set("after", Val::arr());
				tree = ob;
			}
		}
		ctx.label("deep_spine");
	}
	if (ctx.mode == "gen" && c.coin(3))
	{
		// a wide tree and a schedule with more than a thousand SKIP/POP returns: whatever the traversal keeps per
		// call (a depth counter, a stack) has to be released on every way out, not only on CONTINUE
		size_t W = (size_t)c.range(1100, 2600);
		int shape = (int)c.pickn(4);
		Val root = c.coin(50) ? Val::arr() : Val::obj();
		for (size_t i = 0; i < W; i++)
		{
			Val e;
			switch (shape == 3 ? (int)(i % 3) : shape)
			{
			case 0: e = Val::i64((int64_t)i); break;
			case 1: e = Val::arr(); e.a.push_back(Val::i64(1)); e.a.push_back(Val::i64(2)); break;
			default: e = Val::obj(); e.set("a", Val::i64(1)); e.set("b", Val::arr()); break;
			}
			if (root.k == Val::Arr)
				root.a.push_back(e);
			else
				root.set("m" + str(i), e);
		}
		if (c.coin(50))
		{
			Val outer = Val::arr();
			outer.a.push_back(root);
			outer.a.push_back(tree);
			root = outer;
		}
		// run the reference once with CONTINUE everywhere to learn which call numbers are first visits of the
		// small containers / leaves below the wide node, then deviate there
		Sched s;
		size_t est = root.count_nodes() * 2;
		size_t period = 1 + c.pickn(3), phase = c.pickn(3);
		int code = c.coin(70) ? JSON_C_VISIT_RETURN_SKIP : JSON_C_VISIT_RETURN_POP;
		for (size_t n = 2 + phase; n < est; n += period)
			s.codes[n] = code;
		if (c.coin(30))
			s.codes[est > 10 ? est - 1 - c.pickn(5) : 0] = gen_code(c);
		bool reached = false;
		compare(ctx, root, s, reached);
		ctx.label("periodic_schedule");
		if (g_nondefault >= 1100)
			ctx.label("over_1100_skip_or_pop_returns");
		ctx.nontrivial(hash_u64(W * 64 + period * 16 + phase * 4 + (size_t)shape, hash_u64((uint64_t)code)));
		leak.check(ctx);
		return;
	}
	size_t ncalls_est = tree.count_nodes() * 2;
	if (ctx.mode == "single")
	{
		// every single deviation at one call number (bounded) for this tree
		size_t lim = std::min<size_t>(ncalls_est, 40);
		static const int codes[] = {JSON_C_VISIT_RETURN_SKIP, JSON_C_VISIT_RETURN_POP, JSON_C_VISIT_RETURN_STOP, JSON_C_VISIT_RETURN_ERROR, 1, -2};
		bool any = false;
		for (size_t k = 0; k < lim; k++)
			for (int code : codes)
			{
				Sched s;
				s.codes[k] = code;
				bool reached = false;
				compare(ctx, tree, s, reached);
				any |= reached;
			}
		if (any)
			ctx.nontrivial(hash_val(tree));
		leak.check(ctx);
		return;
	}
	Sched s;
	size_t nd = c.pick({1, 4, 3, 2});
	for (size_t i = 0; i < nd; i++)
	{
		size_t at;
		switch (c.pick({2, 5, 2}))
		{
		case 0: at = 0; break;
		case 1: at = c.pickn(ncalls_est + 1); break;
		default: at = ncalls_est > 3 ? ncalls_est - 1 - c.pickn(3) : 0; break;
		}
		s.codes[at] = gen_code(c);
	}
	bool reached = false;
	compare(ctx, tree, s, reached);
	if (reached)
	{
		ctx.label("deviation_reached");
		uint64_t h = hash_val(tree);
		for (auto &kv : s.codes)
			h = hash_u64(kv.first * 100003 + (uint64_t)(unsigned)kv.second, h);
		ctx.nontrivial(h);
	}
	for (auto &kv : s.codes)
		ctx.label(cname(kv.second));
	leak.check(ctx);
}
#define VERIF_HAVE_INIT 1
#include "engine_main.hpp"
