// C10 – numeric accessors and mutators are exact when representable, else saturating.
// Reference evaluated in __int128 / exact bit arithmetic from the header documentation.
#include "common.hpp"
#include "textgen.hpp"
#include "val.hpp"
#include <cerrno>
#include <cmath>
#include <climits>
using namespace vf;

const char *HARNESS_ID = "C10";
typedef __int128 i128;

namespace {
static std::string i128s(i128 v)
{
	if (v == 0)
		return "0";
	bool neg = v < 0;
	unsigned __int128 u = neg ? (unsigned __int128)0 - (unsigned __int128)v : (unsigned __int128)v;
	std::string s;
	while (u)
	{
		s += (char)('0' + (int)(u % 10));
		u /= 10;
	}
	if (neg)
		s += '-';
	std::reverse(s.begin(), s.end());
	return s;
}
static std::string errs(int e) { return e == 0 ? "0" : e == ERANGE ? "ERANGE" : e == EINVAL ? "EINVAL" : str(e); }

// boundary lattice of integers
static std::vector<i128> int_lattice()
{
	std::vector<i128> v;
	i128 bs[] = {0, (i128)1 << 31, -((i128)1 << 31), (i128)1 << 32, (i128)1 << 53, -((i128)1 << 53), (i128)1 << 63, -((i128)1 << 63), (i128)1 << 64, 255, 65536};
	for (i128 b : bs)
		for (int d = -3; d <= 3; d++)
			v.push_back(b + d);
	return v;
}
static std::vector<double> dbl_lattice()
{
	std::vector<double> v;
	double bs[] = {0.0, 1.0, 2147483647.0, 2147483648.0, 4294967296.0, 9007199254740992.0, 9223372036854775808.0, 18446744073709551616.0, 0.5, 1e30, 1e300,
	               4.9e-324, 2.2250738585072014e-308, 255.0};
	for (double b : bs)
		for (int sgn = 0; sgn < 2; sgn++)
		{
			double x = sgn ? -b : b;
			v.push_back(x);
			v.push_back(std::nextafter(x, INFINITY));
			v.push_back(std::nextafter(x, -INFINITY));
			v.push_back(std::nextafter(std::nextafter(x, INFINITY), INFINITY));
			v.push_back(std::nextafter(std::nextafter(x, -INFINITY), -INFINITY));
			v.push_back(x + 0.5);
			v.push_back(x - 0.5);
			v.push_back(x + 1.0);
			v.push_back(x - 1.0);
		}
	v.push_back(INFINITY);
	v.push_back(-INFINITY);
	v.push_back(NAN);
	v.push_back(-NAN);
	return v;
}
static const std::vector<i128> &IL()
{
	static std::vector<i128> v = int_lattice();
	return v;
}
static const std::vector<double> &DL()
{
	static std::vector<double> v = dbl_lattice();
	return v;
}

// exact truncation of a finite double toward zero as i128 (|d| < 2^120 assumed; larger ones saturate)
static i128 trunc128(double d)
{
	if (d >= 1.3e36)
		return ((i128)1 << 120);
	if (d <= -1.3e36)
		return -((i128)1 << 120);
	uint64_t m;
	long q;
	uint64_t b = dbl_bits(d);
	bool neg = b >> 63;
	decompose(b & ~(1ULL << 63), m, q);
	i128 r;
	if (q >= 0)
		r = (i128)m << q;
	else if (q <= -64)
		r = 0;
	else
		r = (i128)(m >> (-q));
	return neg ? -r : r;
}

struct Exp {
	i128 val;
	int err;          // required errno, or -1: unspecified, -2: must be non-zero
};

// ---- reference text -> integer (strtoll/strtoull family, base 10)
struct TextInt {
	bool conv = false; // at least one digit
	bool neg = false;
	i128 mag = 0;       // saturated at 2^100
	bool leading_ws_other_than_space = false;
};
static TextInt ref_textint(const std::string &s)
{
	TextInt r;
	size_t i = 0;
	while (i < s.size() && (s[i] == ' ' || (s[i] >= '\t' && s[i] <= '\r')))
	{
		if (s[i] != ' ')
			r.leading_ws_other_than_space = true;
		i++;
	}
	if (i < s.size() && (s[i] == '+' || s[i] == '-'))
		r.neg = s[i++] == '-';
	while (i < s.size() && s[i] >= '0' && s[i] <= '9')
	{
		r.conv = true;
		if (r.mag < ((i128)1 << 100))
			r.mag = r.mag * 10 + (s[i] - '0');
		i++;
	}
	return r;
}

struct Node {
	enum K { Null, Bool, I64, U64, Dbl, Str, Arr, Obj } k;
	bool b = false;
	int64_t i = 0;
	uint64_t u = 0;
	double d = 0;
	std::string s;
	int str_storage = 0;
	std::string show_() const
	{
		switch (k)
		{
		case Null: return "null";
		case Bool: return b ? "true" : "false";
		case I64: return "int64 node " + str(i);
		case U64: return "uint64 node " + str(u);
		case Dbl: {
			char bb[80];
			snprintf(bb, sizeof bb, "double node %.17g (0x%016llx)", d, (unsigned long long)dbl_bits(d));
			return bb;
		}
		case Str: return "string node " + quote(s) + (str_storage == 1 ? " (grown with set_string_len)" : str_storage == 2 ? " (shrunk with set_string_len)" : "");
		case Arr: return "array node";
		default: return "object node";
		}
	}
	json_object *make() const
	{
		switch (k)
		{
		case Null: return nullptr;
		case Bool: return json_object_new_boolean(b);
		case I64: return json_object_new_int64(i);
		case U64: return json_object_new_uint64(u);
		case Dbl: return json_object_new_double(d);
		case Str: {
			// the same bytes may live inline, in grown (separate) or in shrunk storage
			int m = str_storage;
			if (m == 1)
			{
				json_object *j = json_object_new_string_len(s.data(), s.empty() ? 0 : 1);
				json_object_set_string_len(j, s.data(), (int)s.size());
				return j;
			}
			if (m == 2)
			{
				std::string big = s + std::string(24, '#');
				json_object *j = json_object_new_string_len(big.data(), (int)big.size());
				json_object_set_string_len(j, s.data(), (int)s.size());
				return j;
			}
			return json_object_new_string_len(s.data(), (int)s.size());
		}
		case Arr: {
			json_object *a = json_object_new_array();
			json_object_array_add(a, json_object_new_int(5));
			return a;
		}
		default: {
			json_object *o = json_object_new_object();
			json_object_object_add(o, "a", json_object_new_int(5));
			return o;
		}
		}
	}
};

// expected result of reading `n` as a signed type with bounds [lo,hi] (hi given as i128)
static Exp exp_signed(const Node &n, i128 lo, i128 hi, i128 nan_value)
{
	auto clamp = [&](i128 v) -> Exp {
		if (v < lo)
			return {lo, ERANGE};
		if (v > hi)
			return {hi, ERANGE};
		return {v, 0};
	};
	switch (n.k)
	{
	case Node::Null: return {0, -1};
	case Node::Bool: return {n.b ? 1 : 0, -1};
	case Node::I64: return clamp(n.i);
	case Node::U64: return clamp((i128)n.u);
	case Node::Dbl:
		if (std::isnan(n.d))
			return {nan_value, EINVAL};
		{
			i128 t = trunc128(n.d);
			Exp e = clamp(t);
			// strictly between the bound and the next integer the value fits after truncation: errno unspecified there
			if (e.err == 0 && ((double)t != n.d) && (t == lo || t == hi))
				e.err = -1;
			return e;
		}
	case Node::Str: {
		TextInt t = ref_textint(n.s);
		if (!t.conv)
			return {0, EINVAL};
		i128 v = t.neg ? -t.mag : t.mag;
		// the string is first converted to a 64-bit integer (saturating), then to the target
		i128 v64 = v < -((i128)1 << 63) ? -((i128)1 << 63) : v > (((i128)1 << 63) - 1) ? (((i128)1 << 63) - 1) : v;
		Exp e = clamp(v64);
		if (v64 != v)
			e.err = ERANGE;
		return e;
	}
	default: return {0, -1};
	}
}
static Exp exp_u64(const Node &n)
{
	i128 hi = (((i128)1) << 64) - 1;
	auto clamp = [&](i128 v) -> Exp {
		if (v < 0)
			return {0, ERANGE};
		if (v > hi)
			return {hi, ERANGE};
		return {v, 0};
	};
	switch (n.k)
	{
	case Node::Null: return {0, -1};
	case Node::Bool: return {n.b ? 1 : 0, -1};
	case Node::I64: return clamp(n.i);
	case Node::U64: return {(i128)n.u, 0};
	case Node::Dbl:
		if (std::isnan(n.d))
			return {0, EINVAL};
		{
			i128 t = trunc128(n.d);
			Exp e = clamp(t);
			if (n.d < 0 && t == 0)
				e.err = -1; // (-1,0): value 0 either way
			if (e.err == 0 && ((double)t != n.d) && t == hi)
				e.err = -1;
			return e;
		}
	case Node::Str: {
		TextInt t = ref_textint(n.s);
		if (!t.conv)
			return {0, EINVAL};
		if (t.neg && t.mag != 0)
			return {0, -2}; // negative: nearest bound 0, reported as a range or conversion failure
		if (t.neg)
			return {0, -1};
		Exp e = clamp(t.mag);
		return e;
	}
	default: return {0, -1};
	}
}

static void expect(Ctx &ctx, const Node &n, const char *acc, i128 got, int goterr, const Exp &e)
{
	if (got != e.val)
		ctx.fail(std::string("value-") + acc, std::string(acc) + " of " + n.show_() + " returned " + i128s(got) + " (errno " + errs(goterr) +
		                                          "), documented coercion is " + i128s(e.val));
	if (e.err >= 0 && goterr != e.err)
		ctx.fail(std::string("errno-") + acc, std::string(acc) + " of " + n.show_() + " returned " + i128s(got) + " with errno " + errs(goterr) +
		                                          ", documented errno is " + errs(e.err));
	if (e.err == -2 && goterr == 0)
		ctx.fail(std::string("errno-") + acc, std::string(acc) + " of " + n.show_() + " returned " + i128s(got) +
		                                          " with errno 0 although the value is not representable / no conversion exists");
}

// The text-to-number helpers the string coercions are built on, called directly (json_util.h).
static void check_parse_helpers(Ctx &ctx, const std::string &s)
{
	TextInt t = ref_textint(std::string(s.c_str())); // as C strings: up to the first NUL
	const i128 I64MIN = -((i128)1 << 63), I64MAX = ((i128)1 << 63) - 1, U64MAX = (((i128)1 << 64) - 1);
	{
		int64_t out = 0x5a5a5a5a5a5a5a5aLL;
		errno = 0;
		int r = json_parse_int64(s.c_str(), &out);
		int e = errno;
		if (!t.conv)
		{
			if (r == 0)
				ctx.fail("parse-helper", "json_parse_int64(" + quote(s) + ") reports success without a digit");
			if (out != 0x5a5a5a5a5a5a5a5aLL)
				ctx.fail("parse-helper", "json_parse_int64(" + quote(s) + ") failed but stored " + str(out));
		}
		else
		{
			i128 v = t.neg ? -t.mag : t.mag;
			i128 want = v < I64MIN ? I64MIN : v > I64MAX ? I64MAX : v;
			if (r != 0 || (i128)out != want)
				ctx.fail("parse-helper", "json_parse_int64(" + quote(s) + ") returned " + str(r) + " and stored " + str(out) + ", expected 0 and " + i128s(want));
			if (want != v && e != ERANGE)
				ctx.fail("parse-helper", "json_parse_int64(" + quote(s) + ") saturated without setting errno to ERANGE (errno " + str(e) + ")");
		}
	}
	{
		uint64_t out = 0x5a5a5a5a5a5a5a5aULL;
		errno = 0;
		int r = json_parse_uint64(s.c_str(), &out);
		int e = errno;
		if (!t.conv || t.neg)
		{
			// no digits, or a minus sign ("-0" included): refused, nothing stored
			if (r == 0)
				ctx.fail("parse-helper", "json_parse_uint64(" + quote(s) + ") reports success");
			if (out != 0x5a5a5a5a5a5a5a5aULL)
				ctx.fail("parse-helper", "json_parse_uint64(" + quote(s) + ") failed but stored " + str(out));
		}
		else
		{
			i128 want = t.mag > U64MAX ? U64MAX : t.mag;
			if (r != 0 || (i128)out != want)
				ctx.fail("parse-helper", "json_parse_uint64(" + quote(s) + ") returned " + str(r) + " and stored " + str(out) + ", expected 0 and " + i128s(want));
			if (want != t.mag && e != ERANGE)
				ctx.fail("parse-helper", "json_parse_uint64(" + quote(s) + ") saturated without setting errno to ERANGE (errno " + str(e) + ")");
		}
	}
}

static void check_accessors(Ctx &ctx, const Node &n)
{
	if (n.k == Node::Str)
		check_parse_helpers(ctx, n.s);
	json_object *j = n.make();
	// get_int
	errno = 0;
	int32_t a = json_object_get_int(j);
	int ea = errno;
	expect(ctx, n, "get_int", a, ea, exp_signed(n, INT32_MIN, INT32_MAX, INT32_MIN));
	errno = 0;
	int64_t b = json_object_get_int64(j);
	int eb = errno;
	expect(ctx, n, "get_int64", b, eb, exp_signed(n, -((i128)1 << 63), ((i128)1 << 63) - 1, -((i128)1 << 63)));
	errno = 0;
	uint64_t c = json_object_get_uint64(j);
	int ec = errno;
	expect(ctx, n, "get_uint64", (i128)c, ec, exp_u64(n));
	// get_boolean
	{
		int gb = json_object_get_boolean(j);
		int want;
		switch (n.k)
		{
		case Node::Bool: want = n.b; break;
		case Node::I64: want = n.i != 0; break;
		case Node::U64: want = n.u != 0; break;
		case Node::Dbl: want = n.d != 0; break;
		case Node::Str: want = !n.s.empty(); break;
		default: want = 0; break;
		}
		if ((gb != 0) != (want != 0))
			ctx.fail("value-get_boolean", "get_boolean of " + n.show_() + " returned " + str(gb));
	}
	// get_double
	{
		errno = 0;
		double d = json_object_get_double(j);
		int ed = errno;
		auto bad = [&](const std::string &w) {
			char bb[64];
			snprintf(bb, sizeof bb, "%.17g", d);
			ctx.fail("value-get_double", "get_double of " + n.show_() + " returned " + bb + " (errno " + errs(ed) + "): " + w);
		};
		switch (n.k)
		{
		case Node::Null:
			if (d != 0.0)
				bad("expected 0");
			break;
		case Node::Bool:
			if (d != (n.b ? 1.0 : 0.0))
				bad("expected 0/1");
			break;
		case Node::I64:
			if (correctly_rounded(str(n.i), d) != 1)
				bad("not the nearest double of the integer");
			break;
		case Node::U64:
			if (correctly_rounded(str(n.u), d) != 1)
				bad("not the nearest double of the integer");
			break;
		case Node::Dbl:
			if (dbl_bits(d) != dbl_bits(n.d) && !(std::isnan(d) && std::isnan(n.d)))
				bad("expected the stored double");
			break;
		case Node::Str: {
			// reference for the decimal subset of strtod's grammar that the generator emits
			size_t i = 0;
			const std::string &s = n.s;
			while (i < s.size() && (s[i] == ' ' || (s[i] >= '\t' && s[i] <= '\r')))
				i++;
			size_t st = i;
			if (i < s.size() && (s[i] == '+' || s[i] == '-'))
				i++;
			size_t nd = 0;
			while (i < s.size() && isdigit((unsigned char)s[i]))
				i++, nd++;
			if (i < s.size() && s[i] == '.')
			{
				i++;
				while (i < s.size() && isdigit((unsigned char)s[i]))
					i++, nd++;
			}
			bool conv = nd > 0;
			if (conv && i < s.size() && (s[i] == 'e' || s[i] == 'E'))
			{
				size_t k = i + 1;
				if (k < s.size() && (s[k] == '+' || s[k] == '-'))
					k++;
				if (k < s.size() && isdigit((unsigned char)s[k]))
				{
					while (k < s.size() && isdigit((unsigned char)s[k]))
						k++;
					i = k;
				}
			}
			if (!conv || i != s.size())
			{
				if (d != 0.0 || ed != EINVAL)
					bad("no complete conversion exists: expected 0.0 with EINVAL");
			}
			else
			{
				std::string num = s.substr(st, i - st);
				if (num[0] == '+')
					num = num.substr(1);
				int cr = correctly_rounded(num, d);
				if (cr != 1)
				{
					// overflow: header says both "closest infinity with ERANGE" and (in code comments) 0.0
					bool overflow = correctly_rounded(num, num[0] == '-' ? -INFINITY : INFINITY) == 1;
					if (!(overflow && d == 0.0))
						bad("not the correctly rounded value of the text");
				}
			}
			break;
		}
		default:
			if (d != 0.0)
				bad("expected 0.0 for a node without a conversion");
			break;
		}
	}
	json_object_put(j);
}

static std::string gen_numeric_string(Choices &c)
{
	std::string s;
	static const char *ws[] = {"", "", "", " ", "  ", "\t", "\n", " \t", "\v", "\r", "\f"};
	s += ws[c.pickn(11)];
	switch (c.pickn(4))
	{
	case 0: break;
	case 1: s += '-'; break;
	case 2: s += '+'; break;
	default: break;
	}
	switch (c.pick({5, 4, 3, 2, 1}))
	{
	case 0: { // around a bound
		i128 v = IL()[c.pickn(IL().size())];
		if (v < 0)
			v = -v;
		s += i128s(v);
		break;
	}
	case 1: {
		size_t n = 1 + c.pickn(30);
		for (size_t i = 0; i < n; i++)
			s += (char)('0' + c.range(0, 9));
		break;
	}
	case 2: { // fraction / exponent
		if (c.coin(45))
		{
			// long decimal texts: what a hand-written conversion gets wrong first (the TextGen number shapes: up to
			// 40 significant digits, %.17g texts of arbitrary doubles, exact rounding midpoints and their neighbours)
			TextGenOpts o;
			o.big_numbers = true;
			TextGen g(c, o);
			for (int tries = 0; tries < 8; tries++)
			{
				g.out.clear();
				g.number();
				if (g.out.find_first_of(".eE") != std::string::npos)
					break;
			}
			std::string t = g.out;
			if (!t.empty() && t[0] == '-')
				t.erase(0, 1);
			s += t;
			break;
		}
		size_t n = c.pickn(4);
		for (size_t i = 0; i < n; i++)
			s += (char)('0' + c.range(0, 9));
		s += '.';
		n = c.pickn(5);
		for (size_t i = 0; i < n; i++)
			s += (char)('0' + c.range(0, 9));
		if (c.coin(50))
		{
			s += c.coin(50) ? 'e' : 'E';
			if (c.coin(50))
				s += c.coin(50) ? '-' : '+';
			s += str(c.range(0, 400));
		}
		break;
	}
	case 3: { // digits + exponent
		s += str(c.range(0, 99999));
		s += 'e';
		if (c.coin(50))
			s += c.coin(50) ? '-' : '+';
		s += str(c.range(0, 330));
		break;
	}
	default: break; // nothing
	}
	static const char *junk[] = {"", "", "", "", " ", "a", "e", "-", ".", "+5", "e+", "..", "\t", ",1", "z9"};
	s += junk[c.pickn(15)];
	return s;
}

static Node gen_node(Choices &c, Ctx &ctx)
{
	Node n;
	switch (c.pick({2, 2, 25, 20, 30, 25, 1, 1}))
	{
	case 0: n.k = Node::Null; break;
	case 1:
		n.k = Node::Bool;
		n.b = c.coin(50);
		break;
	case 2: {
		n.k = Node::I64;
		if (c.coin(50))
		{
			i128 v = IL()[c.pickn(IL().size())];
			if (v > INT64_MAX)
				v = INT64_MAX;
			if (v < INT64_MIN)
				v = INT64_MIN;
			n.i = (int64_t)v;
		}
		else
			n.i = (int64_t)c.bits(8) >> c.range(0, 63);
		break;
	}
	case 3: {
		n.k = Node::U64;
		if (c.coin(50))
		{
			i128 v = IL()[c.pickn(IL().size())];
			if (v < 0)
				v = -v;
			if (v > (i128)UINT64_MAX)
				v = UINT64_MAX;
			n.u = (uint64_t)v;
		}
		else
			n.u = c.bits(8) >> c.range(0, 63);
		break;
	}
	case 4:
		n.k = Node::Dbl;
		if (c.coin(60))
			n.d = DL()[c.pickn(DL().size())];
		else
			n.d = bits_dbl(c.bits(8));
		ctx.label("double_node");
		break;
	case 5:
		n.k = Node::Str;
		n.s = gen_numeric_string(c);
		n.str_storage = (int)c.pickn(3);
		ctx.label("string_node");
		break;
	case 6: n.k = Node::Arr; break;
	default: n.k = Node::Obj; break;
	}
	return n;
}

static void check_inc(Ctx &ctx, bool as_u, i128 start, int64_t inc)
{
	// the node reaches its value and representation by every route: constructor, setter on a node of the other
	// representation, setter on a node of the same representation holding an extreme value
	for (int origin = 0; origin < 3; origin++)
	{
		json_object *j;
		if (origin == 0)
			j = as_u ? json_object_new_uint64((uint64_t)start) : json_object_new_int64((int64_t)start);
		else
		{
			j = origin == 1 ? (as_u ? json_object_new_int64(-7) : json_object_new_uint64(UINT64_MAX)) : (as_u ? json_object_new_uint64(UINT64_MAX) : json_object_new_int64(INT64_MIN));
			if ((as_u ? json_object_set_uint64(j, (uint64_t)start) : json_object_set_int64(j, (int64_t)start)) != 1)
				ctx.fail("set-get", "set_int64/set_uint64 refused an integer node");
		}
		int r = json_object_int_inc(j, inc);
		Val got = dump(j);
		json_object_put(j);
		i128 sum = start + (i128)inc;
		i128 lo = -((i128)1 << 63), hi = (((i128)1) << 64) - 1;
		i128 want = sum < lo ? lo : sum > hi ? hi : sum;
		i128 g = got.neg ? -(i128)got.mag : (i128)got.mag;
		if (r != 1 || g != want)
			ctx.fail("int_inc", std::string(as_u ? "uint64" : "int64") + " node " + i128s(start) + (origin == 0 ? " (constructor)" : origin == 1 ? " (set on a node of the other representation)" : " (set on a node holding an extreme value)") +
			                        " incremented by " + str(inc) + " reads back as " + i128s(g) + " (return " + str(r) + "), exact/saturated sum is " + i128s(want));
	}
}

static void check_setters(Choices &c, Ctx &ctx)
{
	// set then get in own type
	json_object *ji = c.coin(50) ? json_object_new_uint64(c.bits(8)) : json_object_new_int64((int64_t)c.bits(8));
	json_object *jd;
	switch (c.pickn(6))
	{
	case 0: jd = json_object_new_double_s(1.5, "1.50"); break;
	case 1: jd = json_object_new_double(2.5); break;
	case 2: jd = json_object_new_double_s(0.0, "0.0"); break;
	case 3: jd = json_object_new_double_s(-0.0, "-0e5"); break;
	case 4: {
		// a parsed double keeps its source text
		static const char *src[] = {"0.0", "-0.0", "0e5", "1.50", "-1.5e0", "1E2"};
		jd = json_tokener_parse(src[c.pickn(6)]);
		break;
	}
	default: jd = json_object_new_double(c.coin(50) ? 0.0 : -0.0); break;
	}
	json_object *jb = json_object_new_boolean(0);
	json_object *js = json_object_new_string("x");
	for (int rep = 0; rep < 3; rep++)
	{
		switch (c.pickn(3))
		{
		case 0: {
			int64_t v = (int64_t)(c.coin(50) ? (i128)IL()[c.pickn(IL().size())] : (i128)(int64_t)c.bits(8));
			if (json_object_set_int64(ji, v) != 1 || json_object_get_int64(ji) != v)
				ctx.fail("set-get", "set_int64(" + str(v) + ") then get_int64 gives " + str(json_object_get_int64(ji)));
			break;
		}
		case 1: {
			uint64_t v = c.coin(50) ? (uint64_t)IL()[c.pickn(IL().size())] : c.bits(8);
			if (json_object_set_uint64(ji, v) != 1 || json_object_get_uint64(ji) != v)
				ctx.fail("set-get", "set_uint64(" + str(v) + ") then get_uint64 gives " + str(json_object_get_uint64(ji)));
			break;
		}
		default: {
			int v = (int)(int32_t)c.bits(4);
			if (c.coin(30))
				v = c.coin(50) ? INT32_MIN : INT32_MAX;
			errno = 0;
			if (json_object_set_int(ji, v) != 1 || json_object_get_int(ji) != v || json_object_get_int64(ji) != v)
				ctx.fail("set-get", "set_int(" + str(v) + ") then get_int gives " + str(json_object_get_int(ji)) + " get_int64 " +
				                        str(json_object_get_int64(ji)));
			break;
		}
		}
	}
	for (int rep = 0, nrep = 1 + (int)c.pickn(3); rep < nrep; rep++)
	{
		double dv;
		switch (c.pickn(5))
		{
		case 0: dv = DL()[c.pickn(DL().size())]; break;
		case 1: dv = bits_dbl(c.bits(8)); break;
		case 2: dv = 0.0; break;
		case 3: dv = -0.0; break;
		default: dv = json_object_get_double(jd); break; // the value it already has
		}
		if (json_object_set_double(jd, dv) != 1 || (dbl_bits(json_object_get_double(jd)) != dbl_bits(dv) && !std::isnan(dv)))
		{
			char bb[160];
			snprintf(bb, sizeof bb, "set_double(%.17g, bits %016llx) then get_double gives %.17g (bits %016llx)", dv, (unsigned long long)dbl_bits(dv), json_object_get_double(jd),
			         (unsigned long long)dbl_bits(json_object_get_double(jd)));
			ctx.fail("set-get", bb);
		}
		if (std::isfinite(dv))
		{
			// the retained text must not survive a set_double
			const char *t = json_object_to_json_string_ext(jd, JSON_C_TO_STRING_PLAIN);
			if (!t || correctly_rounded(t, dv) != 1 || (t[0] == '-') != std::signbit(dv))
				ctx.fail("set-double-text", std::string("after set_double the node serialises as ") + (t ? t : "NULL") + " which does not denote the new value");
		}
	}
	int bv = (int)c.range(0, 1);
	if (json_object_set_boolean(jb, bv) != 1 || json_object_get_boolean(jb) != bv)
		ctx.fail("set-get", "set_boolean");
	// wrong-type setters are refused and change nothing
	if (json_object_set_int64(js, 5) != 0 || json_object_set_double(ji, 1.0) != 0 || json_object_set_boolean(jd, 1) != 0 ||
	    json_object_set_uint64(jb, 1) != 0 || json_object_int_inc(jd, 1) != 0 || json_object_set_int(nullptr, 1) != 0)
		ctx.fail("wrong-type-setter", "a setter accepted a node of another type");
	if (strcmp(json_object_get_string(js), "x") != 0)
		ctx.fail("wrong-type-setter", "string changed by set_int64");
	json_object_put(ji);
	json_object_put(jd);
	json_object_put(jb);
	json_object_put(js);
}
} // namespace

std::vector<ModeInfo> harness_modes()
{
	uint64_t ni = IL().size(), nd = DL().size();
	return {{"gen", 0, "generated nodes of every kind x all five accessors; setters; increments"},
	        {"lattice_int", ni * 2, "every lattice integer as int64 and uint64 node x all accessors"},
	        {"lattice_dbl", nd, "every lattice double x all accessors"},
	        {"lattice_str", ni * 12, "every lattice integer as decimal string with 12 whitespace/sign decorations x all accessors"},
	        {"lattice_inc", ni * ni * 2, "every (lattice value, lattice increment) pair on int64 and uint64 nodes"}};
}

void run_case(Choices &c, Ctx &ctx)
{
	LeakScope leak;
	if (ctx.mode == "lattice_int")
	{
		uint64_t idx = c.bits(8);
		i128 v = IL()[idx / 2];
		Node n;
		if (idx & 1)
		{
			if (v < 0 || v > (i128)UINT64_MAX)
				return;
			n.k = Node::U64;
			n.u = (uint64_t)v;
		}
		else
		{
			if (v < INT64_MIN || v > INT64_MAX)
				return;
			n.k = Node::I64;
			n.i = (int64_t)v;
		}
		ctx.note(n.show_());
		check_accessors(ctx, n);
		ctx.nontrivial(idx);
		leak.check(ctx);
		return;
	}
	if (ctx.mode == "lattice_dbl")
	{
		uint64_t idx = c.bits(8);
		Node n;
		n.k = Node::Dbl;
		n.d = DL()[idx];
		ctx.note(n.show_());
		check_accessors(ctx, n);
		ctx.nontrivial(idx);
		leak.check(ctx);
		return;
	}
	if (ctx.mode == "lattice_str")
	{
		uint64_t idx = c.bits(8);
		i128 v = IL()[idx / 12];
		static const char *pre[12] = {"", " ", "\t", "+", "-", " -", "\t-", "\n+", "  ", "\r-", "00", "-00"};
		Node n;
		n.k = Node::Str;
		n.str_storage = (int)((idx / 12) % 3);
		n.s = std::string(pre[idx % 12]) + i128s(v < 0 ? -v : v);
		ctx.note(n.show_());
		check_accessors(ctx, n);
		ctx.nontrivial(idx);
		leak.check(ctx);
		return;
	}
	if (ctx.mode == "lattice_inc")
	{
		uint64_t idx = c.bits(8);
		uint64_t n = IL().size();
		bool as_u = idx & 1;
		i128 a = IL()[(idx / 2) % n], b = IL()[(idx / 2) / n];
		if (b < INT64_MIN || b > INT64_MAX)
			return;
		if (as_u ? (a < 0 || a > (i128)UINT64_MAX) : (a < INT64_MIN || a > INT64_MAX))
			return;
		ctx.note(std::string(as_u ? "uint64 " : "int64 ") + i128s(a) + " += " + i128s(b));
		check_inc(ctx, as_u, a, (int64_t)b);
		ctx.nontrivial(idx);
		leak.check(ctx);
		return;
	}
	size_t n = 1 + c.len(8);
	uint64_t h = 0;
	bool nt = false;
	for (size_t i = 0; i < n; i++)
	{
		SpanGuard g(c);
		switch (c.pick({6, 2, 1}))
		{
		case 0: {
			Node nd = gen_node(c, ctx);
			ctx.note(nd.show_());
			check_accessors(ctx, nd);
			h = hash_str(nd.show_(), h);
			if (nd.k == Node::Dbl || nd.k == Node::Str || nd.k == Node::U64)
				nt = true;
			break;
		}
		case 1: {
			bool as_u = c.coin(50);
			i128 a;
			int64_t b;
			if (c.coin(60))
			{
				a = IL()[c.pickn(IL().size())];
				i128 bb = IL()[c.pickn(IL().size())];
				if (c.coin(50))
					bb = -bb;
				b = bb < INT64_MIN ? INT64_MIN : bb > INT64_MAX ? INT64_MAX : (int64_t)bb;
			}
			else
			{
				a = as_u ? (i128)c.bits(8) : (i128)(int64_t)c.bits(8);
				b = (int64_t)c.bits(8);
			}
			if (as_u ? (a < 0 || a > (i128)UINT64_MAX) : (a < INT64_MIN || a > INT64_MAX))
				a = 0;
			ctx.note(std::string(as_u ? "uint64 " : "int64 ") + i128s(a) + " += " + str(b));
			check_inc(ctx, as_u, a, b);
			ctx.label("increment");
			h = hash_u64((uint64_t)a ^ (uint64_t)b, h);
			nt = true;
			break;
		}
		default:
			check_setters(c, ctx);
			ctx.label("setters");
			break;
		}
	}
	if (nt)
		ctx.nontrivial(h);
	leak.check(ctx);
}
#include "engine_main.hpp"
