// C02 – serialisation emits valid JSON denoting the tree; parse(serialize(T)) = T.
#include "common.hpp"
#include "refjson.hpp"
#include "treegen.hpp"
#include "parseutil.hpp"
using namespace vf;

const char *HARNESS_ID = "C02";
std::vector<ModeInfo> harness_modes()
{
	return {{"trees", 0, "generated trees x generated flag sets (all 64 reachable)"},
	        {"bytes1", 256 * 64, "every byte 0..255 as a one-byte string (value and, except NUL, member name) x all 64 flag sets"},
	        {"dblgrid", 2047 * 24 * 2, "2047 binades x 24 mantissa patterns x sign: a lone double under all of {0,NOZERO} x {PLAIN,SPACED,PRETTY}"},
	        {"pow10", 1300 * 9, "d = m x 10^k for k in -340..309 (x2 signs), m in {1,1.5,1.25,2,5,9,1.1,12,1.0000000000000002}, with and without NOZERO"}};
}

namespace {
static std::string strip_color(const std::string &s, Ctx &ctx)
{
	static const char *seq[] = {"\033[0m", "\033[0;32m", "\033[0;34m", "\033[0;35m"};
	std::string o;
	for (size_t i = 0; i < s.size();)
	{
		if (s[i] == '\033')
		{
			bool hit = false;
			for (auto q : seq)
			{
				size_t l = strlen(q);
				if (s.compare(i, l, q) == 0)
				{
					i += l;
					hit = true;
					break;
				}
			}
			if (!hit)
				ctx.fail("raw-esc", "raw ESC byte that is not one of the colour sequences in " + quote(s, 300));
			continue;
		}
		o += s[i++];
	}
	return o;
}
static std::string flagname(int f)
{
	std::string s;
	if (f & JSON_C_TO_STRING_SPACED)
		s += "SPACED|";
	if (f & JSON_C_TO_STRING_PRETTY)
		s += "PRETTY|";
	if (f & JSON_C_TO_STRING_PRETTY_TAB)
		s += "PRETTY_TAB|";
	if (f & JSON_C_TO_STRING_NOZERO)
		s += "NOZERO|";
	if (f & JSON_C_TO_STRING_NOSLASHESCAPE)
		s += "NOSLASHESCAPE|";
	if (f & JSON_C_TO_STRING_COLOR)
		s += "COLOR|";
	if (s.empty())
		return "PLAIN";
	s.pop_back();
	return s;
}
static bool all_utf8(const Val &v)
{
	if (v.k == Val::Str && !valid_utf8(v.s))
		return false;
	for (auto &x : v.a)
		if (!all_utf8(x))
			return false;
	for (auto &kv : v.o)
		if (!valid_utf8(kv.first) || !all_utf8(kv.second))
			return false;
	return true;
}
static bool has_nozero_known(const Val &v)
{
	return false;
}

// the core oracle for one (tree, flags)
static void check_one(Ctx &ctx, const Val &tree, json_object *j, int flags)
{
	size_t len = (size_t)-1;
	const char *txt = json_object_to_json_string_length(j, flags, &len);
	std::string fn = flagname(flags);
	if (!txt)
		ctx.fail("null-text", "serialiser returned NULL under " + fn + " for " + show(tree));
	if (len != strlen(txt))
		ctx.fail("length", "reported length " + str(len) + " != strlen " + str(strlen(txt)) + " under " + fn + " for " + show(tree));
	std::string text(txt, len);
	std::string plain = (flags & JSON_C_TO_STRING_COLOR) ? strip_color(text, ctx) : text;
	RefResult ref = ref_parse(plain);
	if (!ref.ok)
		ctx.fail("invalid-json", "independent parser rejects the output (" + ref.err + " at " + str(ref.err_pos) + ") under " + fn + ": " +
		                             quote(plain, 400) + " tree=" + show(tree, 300));
	std::string why;
	if (!same_val(ref.v, tree, why, DBL_JUDGE))
		ctx.fail("wrong-value", "output under " + fn + " denotes a different value: " + why + " text=" + quote(plain, 400) + " tree=" + show(tree, 300));
	if (all_utf8(tree) && !valid_utf8(text))
		ctx.fail("utf8", "valid UTF-8 strings but the output is not valid UTF-8 under " + fn + ": " + quote(text, 300));
	if (flags & JSON_C_TO_STRING_COLOR)
		return;
	// round trip through json-c itself, default and strict mode
	for (int strict = 0; strict < 2; strict++)
	{
		json_tokener *tok = json_tokener_new_ex(256); // trees here may be nested deeper than the default limit
		json_tokener_set_flags(tok, strict ? JSON_TOKENER_STRICT : 0);
		HeapCopy hc(text, true);
		json_object *back = json_tokener_parse_ex(tok, hc.p, (int)hc.n);
		int err = (int)json_tokener_get_error(tok);
		json_tokener_free(tok);
		if (err != json_tokener_success)
		{
			json_object_put(back);
			ctx.fail("reparse", std::string(strict ? "strict" : "default") + " re-parse of the output failed (" +
			                        json_tokener_error_desc((json_tokener_error)err) + ") under " + fn + ": " + quote(text, 400));
		}
		{
			// independent of json_object_equal: compare through the accessors with the model's own comparison
			Val b = dump(back);
			std::string why2;
			if (!same_val(tree, b, why2, DBL_VALUE))
			{
				json_object_put(back);
				ctx.fail("roundtrip-value", "re-parsed tree differs from the original under " + fn + ": " + why2 + " text=" + quote(text, 300));
			}
		}
		if (!json_object_equal(j, back))
		{
			Val b = dump(back);
			json_object_put(back);
			ctx.fail("roundtrip-equal", "re-parsed tree is not json_object_equal to the original under " + fn + ": text=" + quote(text, 300) +
			                                " original=" + show(tree, 300) + " reparsed=" + show(b, 300));
		}
		size_t l2 = 0;
		const char *t2 = json_object_to_json_string_length(back, flags, &l2);
		std::string again = t2 ? std::string(t2, l2) : "<NULL>";
		json_object_put(back);
		if (again != text)
			ctx.fail("reserialize", "re-serialising the re-parsed tree under " + fn + " gives " + quote(again, 300) + " instead of " + quote(text, 300));
	}
}

static void check_tree(Ctx &ctx, const Val &tree, const std::vector<int> &flagsets, int str_mode = 0)
{
	// string nodes may have reached their contents through set_string_len (separately allocated or oversized storage)
	build_str_mode() = str_mode;
	json_object *j = build(tree);
	build_str_mode() = 0;
	for (int f : flagsets)
		check_one(ctx, tree, j, f);
	// serialising must not have changed the tree
	Val after = dump(j);
	std::string why;
	Val expect = tree;
	if (!same_val(tree, after, why, DBL_BITS))
	{
		json_object_put(j);
		ctx.fail("mutated", "serialisation changed the tree: " + why);
	}
	json_object_put(j);
}
static const int SIX[6] = {0, JSON_C_TO_STRING_SPACED, JSON_C_TO_STRING_PRETTY, JSON_C_TO_STRING_NOZERO,
                           JSON_C_TO_STRING_NOZERO | JSON_C_TO_STRING_SPACED, JSON_C_TO_STRING_NOZERO | JSON_C_TO_STRING_PRETTY | JSON_C_TO_STRING_PRETTY_TAB};
} // namespace

void run_case(Choices &c, Ctx &ctx)
{
	LeakScope leak;
	if (ctx.mode == "bytes1")
	{
		uint64_t idx = c.bits(8);
		int flags = (int)(idx & 63);
		unsigned char b = (unsigned char)(idx >> 6);
		Val t = Val::arr();
		t.a.push_back(Val::str(std::string(1, (char)b)));
		Val o = Val::obj();
		if (b)
			o.set(std::string(1, (char)b), Val::str(std::string("x") + (char)b + "y"));
		t.a.push_back(o);
		ctx.note("byte " + str((int)b) + " flags " + flagname(flags));
		check_tree(ctx, t, {flags});
		ctx.nontrivial(idx);
		leak.check(ctx);
		return;
	}
	if (ctx.mode == "dblgrid")
	{
		uint64_t idx = c.bits(8);
		uint64_t neg = idx & 1, mi = (idx >> 1) % 24, be = (idx >> 1) / 24;
		static const uint64_t mant[8] = {0, 1, 2, 0xfffffffffffffULL, 0xffffffffffffeULL, 0x8000000000000ULL, 0x7ffffffffffffULL, 0x4000000000000ULL};
		uint64_t m = mi < 8 ? mant[mi] : (Rng::splitmix(idx) & ((1ULL << 52) - 1));
		double d = bits_dbl((neg << 63) | (be << 52) | m);
		Val t = Val::arr();
		t.a.push_back(Val::dbl(d));
		ctx.note("double " + show(t.a[0]));
		check_tree(ctx, t, {SIX[0], SIX[1], SIX[2], SIX[3], SIX[4], SIX[5]});
		ctx.nontrivial(idx);
		leak.check(ctx);
		return;
	}
	if (ctx.mode == "pow10")
	{
		uint64_t idx = c.bits(8);
		static const char *ms[9] = {"1", "1.5", "1.25", "2", "5", "9", "1.1", "12", "1.0000000000000002"};
		int mi = (int)(idx % 9);
		int k = (int)(idx / 9 % 650) - 340;
		bool neg = idx / 9 / 650;
		std::string t = std::string(neg ? "-" : "") + ms[mi] + "e" + std::to_string(k);
		double d = strtod(t.c_str(), nullptr);
		if (!std::isfinite(d) || correctly_rounded(t, d) != 1)
			return;
		Val tr = Val::obj();
		tr.set("d", Val::dbl(d));
		ctx.note("double from " + t + ": " + show(tr));
		check_tree(ctx, tr, {SIX[0], SIX[1], SIX[2], SIX[3], SIX[4], SIX[5]});
		ctx.nontrivial(idx);
		leak.check(ctx);
		return;
	}
	TreeGenOpts o;
	o.max_depth = 6;
	o.max_nodes = 4 + c.len(50);
	TreeGen g(c, o);
	Val tree = g.root();
	if (c.coin(8))
	{
		// a spine of 8..60 containers: indentation and recursion depth of the serialisers
		for (size_t d = 0, n = (size_t)c.range(8, 60); d < n; d++)
		{
			Val w = c.coin(50) ? Val::arr() : Val::obj();
			if (w.k == Val::Arr)
			{
				if (c.coin(30))
					w.a.push_back(Val::i64((int64_t)d));
				w.a.push_back(tree);
			}
			else
			{
				if (c.coin(30))
					w.set("s", Val::str("x"));
				w.set("k", tree);
			}
			tree = w;
		}
		ctx.label("deep_spine");
	}
	std::vector<int> fs;
	size_t nf = 2 + c.pickn(3);
	for (size_t i = 0; i < nf; i++)
		fs.push_back((int)c.range(0, 63));
	if (c.coin(4))
	{
		fs.clear();
		for (int f = 0; f < 64; f++)
			fs.push_back(f);
		ctx.label("all64");
	}
	if (g.f_double)
		ctx.label("has_double");
	if (g.f_escape)
		ctx.label("needs_escape");
	if (g.f_nul)
		ctx.label("embedded_nul");
	if (g.f_invalid_utf8)
		ctx.label("invalid_utf8");
	if (g.f_u64)
		ctx.label("uint64_node");
	if (g.f_retained)
		ctx.label("retained_text");
	if (g.f_wide)
		ctx.label("wide_container");
	if (tree.nesting() >= 2)
		ctx.label("nesting_ge2");
	std::string fl;
	for (int f : fs)
		fl += flagname(f) + " ";
	ctx.note("tree=" + show(tree, 800) + "\nflags: " + (fs.size() == 64 ? "all 64" : fl));
	int str_mode = (int)c.pickn(4);
	if (str_mode)
		ctx.label("strings_with_set_history");
	check_tree(ctx, tree, fs, str_mode);
	if (g.f_double || g.f_escape || tree.nesting() >= 2)
		ctx.nontrivial(hash_val(tree, hash_u64(fs[0] * 64 + fs[1])));
	leak.check(ctx);
}
#include "engine_main.hpp"
