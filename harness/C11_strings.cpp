// C11 – strings are length-counted byte sequences preserved through any mutation history.
#include "common.hpp"
#include "refjson.hpp"
#include <climits>
using namespace vf;

const char *HARNESS_ID = "C11";
std::vector<ModeInfo> harness_modes()
{
	return {{"hist", 0, "create + <=30 set_string/set_string_len calls with lengths crossing the inline threshold both ways, failing sets (negative length, failed malloc)"},
	        {"lens", 40 * 40 * 40, "every length triple (create a, set b, set c) for a,b,c in 0..39: content, terminator, equality, copy, serialisation"}};
}

namespace {
struct S {
	Ctx &ctx;
	json_object *j = nullptr;
	std::string model;
	std::string trace;
	uint64_t h = 0;
	int switches = 0;
	unsigned ser_rot = 0;
	bool alias = false;
	bool was_big = false, shrunk0 = false, grow_after0 = false, failed_set = false;
	S(Ctx &c) : ctx(c) {}
	void log(const std::string &s)
	{
		h = hash_str(s, h);
		if (ctx.verbose)
			trace += s + "\n";
	}
	void verify(const char *after)
	{
		int l = json_object_get_string_len(j);
		if (l != (int)model.size())
			ctx.fail("length", std::string(after) + ": get_string_len=" + str(l) + " model=" + str(model.size()));
		const char *p = json_object_get_string(j);
		if (!p)
			ctx.fail("null", std::string(after) + ": get_string returned NULL");
		if (memcmp(p, model.data(), model.size()) != 0)
			ctx.fail("content", std::string(after) + ": bytes differ, got " + quote(std::string(p, model.size()), 80) + " model " + quote(model, 80));
		if (p[model.size()] != 0)
			ctx.fail("terminator", std::string(after) + ": no NUL after the " + str(model.size()) + " bytes");
		if (json_object_get_type(j) != json_type_string)
			ctx.fail("type", "node is no longer a string");
	}
	void deep_checks()
	{
		// equality with a fresh node of the model bytes, both directions
		json_object *f = json_object_new_string_len(model.data(), (int)model.size());
		if (!json_object_equal(j, f) || !json_object_equal(f, j))
			ctx.fail("equal", "node after its history is not equal to a fresh node with the same " + str(model.size()) + " bytes " + quote(model, 80));
		if (!model.empty())
		{
			std::string other = model;
			other[other.size() - 1] ^= 1;
			json_object *g = json_object_new_string_len(other.data(), (int)other.size());
			if (json_object_equal(j, g))
				ctx.fail("equal", "node equals a string differing in its last byte");
			json_object_put(g);
			json_object *sh = json_object_new_string_len(model.data(), (int)model.size() - 1);
			if (json_object_equal(j, sh) || json_object_equal(sh, j))
				ctx.fail("equal", "node equals its own proper prefix");
			json_object_put(sh);
		}
		json_object_put(f);
		// deep copy
		json_object *cp = nullptr;
		if (json_object_deep_copy(j, &cp, nullptr) != 0 || !cp)
			ctx.fail("copy", "deep copy failed");
		if (json_object_get_string_len(cp) != (int)model.size() || memcmp(json_object_get_string(cp), model.data(), model.size()) != 0 ||
		    json_object_get_string(cp)[model.size()] != 0)
			ctx.fail("copy", "deep copy does not carry all " + str(model.size()) + " bytes of " + quote(model, 80));
		json_object_put(cp);
		// serialisation through the independent parser
		// (every flag combination without the colour escapes; the rotating one covers them all over a history)
		static const int fl[] = {JSON_C_TO_STRING_PLAIN, JSON_C_TO_STRING_SPACED, JSON_C_TO_STRING_PRETTY, JSON_C_TO_STRING_NOZERO, JSON_C_TO_STRING_NOSLASHESCAPE,
		                         JSON_C_TO_STRING_NOSLASHESCAPE | JSON_C_TO_STRING_PRETTY, JSON_C_TO_STRING_NOSLASHESCAPE | JSON_C_TO_STRING_SPACED | JSON_C_TO_STRING_NOZERO,
		                         JSON_C_TO_STRING_PRETTY | JSON_C_TO_STRING_PRETTY_TAB | JSON_C_TO_STRING_SPACED};
		int rot = fl[ser_rot++ % 8];
		for (int flags : {(int)JSON_C_TO_STRING_PLAIN, rot})
		{
			size_t sl = 0;
			const char *t = json_object_to_json_string_length(j, flags, &sl);
			if (!t)
				ctx.fail("serialize", "NULL text");
			if (strlen(t) != sl)
				ctx.fail("serialize", "reported length " + str(sl) + " but the text has " + str(strlen(t)) + " bytes (flags " + str(flags) + ")");
			RefResult r = ref_parse(std::string(t, sl));
			if (!r.ok || r.v.k != Val::Str || r.v.s != model)
				ctx.fail("serialize", "serialisation with flags " + str(flags) + " " + quote(std::string(t, sl), 120) + " does not denote the " + str(model.size()) + " bytes " +
				                          quote(model, 80));
		}
	}
};

static size_t pick_len(Choices &c, size_t cur)
{
	switch (c.pick({4, 4, 3, 2, 1}))
	{
	case 0: {
		static const size_t ls[] = {0, 1, 6, 7, 8, 9, 10, 15, 16, 17};
		return ls[c.pickn(10)];
	}
	case 1: {
		long v = (long)cur + c.irange(-2, 2);
		return v < 0 ? 0 : (size_t)v;
	}
	case 2: return c.len(70);
	case 3: return 0;
	default: return (size_t)c.range(1000, 5000);
	}
}
static std::string fill(Choices &c, size_t n, bool allow_nul)
{
	std::string s = c.bytes(std::min<size_t>(n, 12));
	if (c.coin(35))
	{
		// the bytes the serialiser treats specially, in any order
		static const char sp[] = {'/', '"', '\\', '\b', '\n', '\t', 1, 0x1f, 0x7f, (char)0x80, (char)0xff, 0, 'a', '/'};
		for (auto &ch : s)
			ch = sp[c.pickn(sizeof sp)];
	}
	s.resize(n, 'q');
	for (size_t i = 12; i < n; i++)
		s[i] = (char)('a' + i % 23);
	if (!allow_nul)
		for (auto &ch : s)
			if (ch == 0)
				ch = 1;
	return s;
}
} // namespace

void run_case(Choices &c, Ctx &ctx)
{
	LeakScope leak;
	S s(ctx);
	if (ctx.mode == "lens")
	{
		uint64_t idx = c.bits(8);
		s.ser_rot = (unsigned)idx;
		size_t a = idx % 40, b = idx / 40 % 40, d = idx / 1600;
		std::string A(a, 'A'), B(b, 'B'), D(d, 'D');
		if (a > 2)
			A[1] = 0;
		if (b > 3)
			B[2] = 0;
		s.j = json_object_new_string_len(A.data(), (int)a);
		s.model = A;
		s.verify("create");
		if (json_object_set_string_len(s.j, B.data(), (int)b) != 1)
			ctx.fail("set-failed", "set_string_len(" + str(b) + ") failed");
		s.model = B;
		s.verify("set 1");
		if (json_object_set_string_len(s.j, D.data(), (int)d) != 1)
			ctx.fail("set-failed", "set_string_len(" + str(d) + ") failed");
		s.model = D;
		s.verify("set 2");
		s.deep_checks();
		json_object_put(s.j);
		ctx.note("lengths " + str(a) + " -> " + str(b) + " -> " + str(d));
		ctx.nontrivial(idx);
		leak.check(ctx);
		return;
	}
	{
		size_t n = pick_len(c, 8);
		if (c.coin(50))
		{
			s.model = fill(c, n, false);
			s.j = json_object_new_string(s.model.c_str());
			s.log("new_string len " + str(n));
		}
		else
		{
			s.model = fill(c, n, true);
			s.j = json_object_new_string_len(s.model.data(), (int)n);
			s.log("new_string_len " + str(n));
		}
		if (!s.j)
			ctx.fail("create", "constructor returned NULL");
		s.verify("create");
	}
	s.ser_rot = (unsigned)c.pickn(8);
	size_t nops = 1 + c.len(30);
	for (size_t i = 0; i < nops; i++)
	{
		SpanGuard g(c);
		size_t cur = s.model.size();
		switch (c.pick({10, 10, 2, 2, 1, 3}))
		{
		case 5: { // the source is memory the node itself hands out
			int r;
			std::string want;
			// (serialising a text escapes it: repeated, the contents would double every time - only while they are short)
			switch (cur < 2000 ? c.pickn(3) : 1 + c.pickn(2))
			{
			case 0: {
				// its own serialisation (a buffer owned by the node): the text is copied, whatever the set does to that buffer
				const char *t = json_object_to_json_string_ext(s.j, c.coin(50) ? JSON_C_TO_STRING_PLAIN : JSON_C_TO_STRING_PRETTY);
				want = t;
				r = json_object_set_string(s.j, t);
				s.log("set_string from the node's own serialisation (" + str(want.size()) + " bytes)");
				break;
			}
			case 1:
				// its own contents through set_string: strlen semantics cut the value at the first embedded NUL
				want = std::string(s.model.c_str());
				r = json_object_set_string(s.j, json_object_get_string(s.j));
				s.log("set_string from the node's own contents");
				break;
			default: {
				// a prefix of its own contents (same start address) with an explicit length
				size_t n = cur ? c.pickn(cur + 1) : 0;
				want = s.model.substr(0, n);
				r = json_object_set_string_len(s.j, json_object_get_string(s.j), (int)n);
				s.log("set_string_len to a " + str(n) + "-byte prefix of the node's own contents");
				break;
			}
			}
			if (r != 1)
				ctx.fail("set-failed", "a set whose source is the node's own memory returned " + str(r));
			if (want.size() > cur)
				s.was_big = true;
			s.model = want;
			s.alias = true;
			break;
		}
		case 0: { // set_string (strlen semantics: an embedded NUL in the source ends it)
			size_t n = pick_len(c, cur);
			std::string src = fill(c, n, true);
			char *blk = new char[n + 1];
			memcpy(blk, src.data(), n);
			blk[n] = 0;
			int r = json_object_set_string(s.j, blk);
			size_t eff = strlen(blk);
			delete[] blk;
			s.log("set_string srclen " + str(n) + " strlen " + str(eff));
			if (r != 1)
				ctx.fail("set-failed", "set_string of " + str(eff) + " bytes returned " + str(r));
			bool big_before = s.was_big;
			s.model = src.substr(0, eff);
			if (eff > cur)
				s.was_big = true;
			(void)big_before;
			break;
		}
		case 1: { // set_string_len from an exact-size (non-terminated) block
			size_t n = pick_len(c, cur);
			std::string src = fill(c, n, true);
			char *blk = new char[n];
			if (n)
				memcpy(blk, src.data(), n);
			int r = json_object_set_string_len(s.j, blk, (int)n);
			delete[] blk;
			s.log("set_string_len " + str(n));
			if (r != 1)
				ctx.fail("set-failed", "set_string_len(" + str(n) + ") returned " + str(r));
			s.model = src;
			break;
		}
		case 2: { // negative length must fail and change nothing
			int neg = -(int)c.range(1, 100000);
			if (c.coin(20))
				neg = INT_MIN;
			int r = json_object_set_string_len(s.j, "abc", neg);
			s.log("set_string_len negative " + str(neg));
			if (r != 0)
				ctx.fail("negative-accepted", "set_string_len with length " + str(neg) + " returned " + str(r));
			s.failed_set = true;
			break;
		}
		case 3: { // the allocation of a growing set fails
			size_t n = cur + 1 + c.len(40);
			bool by_strlen = c.coin(50); // json_object_set_string (length by strlen) or json_object_set_string_len
			std::string src = fill(c, n, !by_strlen);
			verif_alloc_arm(0, -1);
			int r = by_strlen ? json_object_set_string(s.j, src.c_str()) : json_object_set_string_len(s.j, src.data(), (int)n);
			long calls = verif_alloc_disarm();
			s.log(std::string(by_strlen ? "set_string " : "set_string_len ") + str(n) + " with failing malloc");
			if (verif_alloc_faults_fired() > 0)
			{
				if (r != 0)
					ctx.fail("oom-accepted", "set_string_len returned " + str(r) + " although its allocation failed");
				s.failed_set = true;
			}
			else
			{
				// no allocation was needed (enough room): the set must have succeeded
				(void)calls;
				if (r != 1)
					ctx.fail("set-failed", "set_string_len(" + str(n) + ") returned " + str(r));
				s.model = src;
			}
			break;
		}
		default: { // wrong type / NULL object
			json_object *i = json_object_new_int(3);
			if (json_object_set_string(i, "x") != 0 || json_object_set_string_len(nullptr, "x", 1) != 0)
				ctx.fail("wrong-type", "set_string accepted a non-string node");
			json_object_put(i);
			break;
		}
		}
		size_t now = s.model.size();
		if ((cur <= 7) != (now <= 7))
			s.switches++;
		if (now == 0 && cur > 0)
			s.shrunk0 = true;
		if (s.shrunk0 && now > 7)
			s.grow_after0 = true;
		s.verify("step");
		if (c.coin(25))
			s.deep_checks();
	}
	s.deep_checks();
	json_object_put(s.j);
	if (s.switches >= 2)
		ctx.label("two_threshold_crossings");
	if (s.grow_after0)
		ctx.label("grow_shrink0_grow");
	if (s.alias)
		ctx.label("source_is_the_nodes_own_memory");
	if (s.failed_set)
		ctx.label("failed_set");
	if (s.switches >= 2 || s.grow_after0)
		ctx.nontrivial(s.h);
	ctx.note(s.trace);
	leak.check(ctx);
}
#include "engine_main.hpp"
