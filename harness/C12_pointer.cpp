// C12 – JSON Pointer get/set resolve exactly per RFC 6901.
#include "common.hpp"
#include "treegen.hpp"
#include "rfc6901.hpp"
#include <cerrno>
using namespace vf;

const char *HARNESS_ID = "C12";
std::vector<ModeInfo> harness_modes()
{
	return {{"fmtlen", 1200, "getf/setf vs get/set for a pointer of every formatted length 1..600 (two shapes): long member names"},
	        {"gen", 0, "generated trees with adversarial keys; every node path (complete per tree), mutated pointers, set histories, printf variants"},
	        {"literal", 0, "replay: JSON text, NUL, pointer; get and set are both checked"}};
}

namespace {
static const char *KEYS[] = {"", "/", "~", "~0", "~1", "~01", "~10", "a/b", "m~n", "0", "00", "1", "2", "-", "01", "10", "18446744073709551616",
                             "4294967296", "a", "b", "foo", "%", "%s", "a%db", "~~", "//", " ", "a b", "\xc3\xa4", "-1", "+1", "1e0", "0x1", "x~1y", "x~0y"};
static const size_t NKEYS = sizeof(KEYS) / sizeof(KEYS[0]);

static std::set<long> g_dead;
static void del_cb(json_object *, void *ud)
{
	long id = (long)(intptr_t)ud;
	if (!g_dead.insert(id).second)
		g_dead.insert(-1000000 - id);
}

struct T {
	Ctx &ctx;
	Val model;
	json_object *root;
	T(Ctx &c, const Val &v) : ctx(c), model(v) { root = build(v); }
	void same(const char *when)
	{
		Val got = dump(root);
		std::string why;
		if (!same_val(model, got, why, DBL_BITS))
			ctx.fail("tree-changed", std::string(when) + ": tree differs from the reference: " + why);
	}
	// one lookup compared with the reference; returns whether it succeeded
	bool get(const std::string &p, int variant)
	{
		PtrErr err;
		Val *want = ptr_eval(model, p, err);
		json_object *res = (json_object *)(intptr_t)-3;
		errno = 0;
		int rc;
		std::string how;
		switch (variant)
		{
		case 1:
			rc = json_pointer_getf(root, &res, "%s", p.c_str());
			how = "getf(\"%s\")";
			break;
		case 2: {
			// literal format: escape % as %%
			std::string f;
			for (char ch : p)
			{
				f += ch;
				if (ch == '%')
					f += '%';
			}
			rc = json_pointer_getf(root, &res, f.c_str());
			how = "getf(literal)";
			break;
		}
		case 3: {
			// "<prefix>/%d" when the last token is a small canonical index, else "%s%s"
			size_t sl = p.rfind('/');
			size_t idx;
			if (sl != std::string::npos && ptr_array_index(p.substr(sl + 1), idx) && idx < 100000 && p.find('%') == std::string::npos)
			{
				rc = json_pointer_getf(root, &res, "%s/%d", p.substr(0, sl).c_str(), (int)idx);
				how = "getf(\"%s/%d\")";
			}
			else
			{
				size_t cut = p.size() / 2;
				rc = json_pointer_getf(root, &res, "%s%s", p.substr(0, cut).c_str(), p.substr(cut).c_str());
				how = "getf(\"%s%s\")";
			}
			break;
		}
		default:
			rc = json_pointer_get(root, p.c_str(), &res);
			how = "get";
			break;
		}
		int e = errno;
		if (want)
		{
			if (rc != 0)
				ctx.fail("get-fails", how + " " + quote(p) + " failed (rc " + str(rc) + ", errno " + str(e) + ") but RFC 6901 evaluation reaches " + show(*want, 100) +
				                          " in " + show(model, 300));
			std::vector<std::string> toks;
			ptr_tokens(p, toks);
			json_object *walked = nullptr;
			if (!jc_walk(root, toks, &walked))
				ctx.fail("HARNESS", "accessor walk failed for " + quote(p));
			if (res != walked)
				ctx.fail("get-wrong-node", how + " " + quote(p) + " returned " + (res ? "a different node: " + show(dump(res), 100) : std::string("NULL")) +
				                               ", the walk reaches " + show(*want, 100));
			return true;
		}
		if (rc == 0)
			ctx.fail("get-succeeds", how + " " + quote(p) + " succeeded (returned " + (res && res != (json_object *)(intptr_t)-3 ? show(dump(res), 100) : std::string("null")) +
			                             ") but RFC 6901 evaluation fails (" + (err == P_SYNTAX ? "syntax" : "no such value") + ") in " + show(model, 300));
		if (rc > 0)
			ctx.fail("get-retval", how + " " + quote(p) + " returned a positive value");
		if (e != ENOENT && e != EINVAL)
			ctx.fail("get-errno", how + " " + quote(p) + " failed with errno " + str(e) + " (expected ENOENT or EINVAL)");
		return false;
	}
	// reference set with json_pointer.h semantics; false = must fail
	bool ref_set(Val &m, const std::string &p, const Val &v)
	{
		std::vector<std::string> toks;
		if (!ptr_tokens(p, toks))
			return false;
		if (toks.empty())
		{
			m = v;
			return true;
		}
		PtrErr err;
		Val *parent = ptr_eval_tokens(m, toks, toks.size() - 1, err);
		if (!parent)
			return false;
		const std::string &last = toks.back();
		if (parent->k == Val::Obj)
		{
			parent->set(last, v);
			return true;
		}
		if (parent->k == Val::Arr)
		{
			size_t idx;
			if (last == "-")
			{
				parent->a.push_back(v);
				return true;
			}
			if (!ptr_array_index(last, idx))
				return false;
			if (idx >= SIZE_MAX / 16)
				return false; // cannot be honoured: documented failure of json_object_array_put_idx
			if (idx < parent->a.size())
				parent->a[idx] = v;
			else
			{
				// json_pointer.h: the value is stored with json_object_array_put_idx(), which pads with nulls
				while (parent->a.size() < idx)
					parent->a.push_back(Val::null());
				parent->a.push_back(v);
			}
			return true;
		}
		return false;
	}
	// an array index far beyond the end but below the refusal threshold needs real memory: not generated (DESIGN 6/C12)
	// 0: ordinary; 1: an array index that needs real memory in amounts the machine decides about (not generated);
	// 2: an index of 2^40 or more below the overflow guards: the allocation cannot succeed here, the set must be refused
	int far_index(const std::string &p)
	{
		std::vector<std::string> toks;
		if (!ptr_tokens(p, toks) || toks.empty())
			return 0;
		PtrErr err;
		Val *parent = ptr_eval_tokens(model, toks, toks.size() - 1, err);
		size_t idx;
		if (!(parent && parent->k == Val::Arr && ptr_array_index(toks.back(), idx)))
			return 0;
		if (idx >= ((size_t)1 << 40) && idx < SIZE_MAX / 16)
			return 2;
		return idx > parent->a.size() + 3000 && idx < SIZE_MAX / 16 ? 1 : 0;
	}
	void set(const std::string &p, long id, int variant)
	{
		int far = far_index(p);
		if (far == 1)
		{
			if (id >= 0)
				g_dead.insert(id); // nothing created
			ctx.label("set_skipped_grey_zone");
			return;
		}
		// id < 0: the value is JSON null (a NULL pointer), there is nothing to own
		// (not at the root: a null root is a NULL pointer, which the pointer functions document as invalid input)
		if (id < 0 && p.empty())
			ctx.fail("HARNESS", "null value generated for the root");
		bool nullv = id < 0;
		Val v = nullv ? Val::null() : Val::i64(id);
		json_object *jv = nullv ? nullptr : json_object_new_int64(id);
		if (jv)
			json_object_set_userdata(jv, (void *)(intptr_t)id, del_cb);
		if (nullv)
			ctx.label("set_null_value");
		Val m2 = model;
		bool want = far == 2 ? false : ref_set(m2, p, v);
		if (far == 2)
			ctx.label("set_refused_by_allocator"); // nothing may change, the value stays with the caller
		errno = 0;
		int rc;
		std::string how;
		if (variant == 1)
		{
			rc = json_pointer_setf(&root, jv, "%s", p.c_str());
			how = "setf(\"%s\")";
		}
		else if (variant == 2)
		{
			size_t cut = p.size() / 2;
			rc = json_pointer_setf(&root, jv, "%s%s", p.substr(0, cut).c_str(), p.substr(cut).c_str());
			how = "setf(\"%s%s\")";
		}
		else
		{
			rc = json_pointer_set(&root, p.c_str(), jv);
			how = "set";
		}
		if (want)
		{
			if (rc != 0)
				ctx.fail("set-fails", how + " " + quote(p) + " failed (rc " + str(rc) + ", errno " + str(errno) + ") but the location can be set in " + show(model, 300));
			model = m2;
			same(("after " + how + " " + quote(p)).c_str());
			if (!nullv && g_dead.count(id))
				ctx.fail("set-ownership", how + " " + quote(p) + " succeeded but the value was destroyed");
			std::vector<std::string> toks;
			ptr_tokens(p, toks);
			if (toks.empty() || toks.back() != "-" )
			{
				json_object *res = nullptr;
				// "-" on an array names the element after the last; for an object parent it is an ordinary key
				PtrErr err;
				Val *back = ptr_eval(model, p, err);
				if (back)
				{
					if (json_pointer_get(root, p.c_str(), &res) != 0 || res != jv)
						ctx.fail("set-then-get", "after " + how + " " + quote(p) + " a lookup of the same pointer does not return the value just set");
				}
			}
			else
			{
				json_object *res = nullptr;
				PtrErr err;
				Val *back = ptr_eval(model, p, err);
				if (back && (json_pointer_get(root, p.c_str(), &res) != 0 || res != jv))
					ctx.fail("set-then-get", "after " + how + " " + quote(p) + " a lookup of the same pointer does not return the value just set");
			}
		}
		else
		{
			if (rc == 0)
			{
				Val got = dump(root);
				ctx.fail("set-succeeds", how + " " + quote(p) + " succeeded but RFC 6901 / json_pointer.h give no such location in " + show(model, 300) +
				                             "; tree is now " + show(got, 300));
			}
			same(("after failed " + how + " " + quote(p)).c_str());
			if (!nullv)
			{
				if (g_dead.count(id))
					ctx.fail("set-ownership", "failed " + how + " " + quote(p) + " destroyed the value (ownership must stay with the caller)");
				json_object_put(jv);
				if (!g_dead.count(id))
					ctx.fail("set-ownership", "after a failed " + how + " the caller's put did not destroy the value: the tree kept a reference");
			}
		}
	}
};

static std::string mutate_ptr(Choices &c, const std::string &p)
{
	std::string q = p;
	size_t pos = q.empty() ? 0 : c.pickn(q.size() + 1);
	switch (c.pick({3, 3, 3, 3, 2, 2, 2, 2, 2, 2, 2}))
	{
	case 0:
		if (pos < q.size())
			q.erase(pos, 1);
		break;
	case 1: q.insert(pos, "/"); break;
	case 2: q.insert(pos, "~"); break;
	case 3: {
		static const char *ins[] = {"~2", "~0", "~1", "0", "00", "+1", "-", "/0", "/-", "/", "a", "~01", "1", "9", " "};
		q.insert(pos, ins[c.pickn(15)]);
		break;
	}
	case 4: q += "/" + std::string(KEYS[c.pickn(NKEYS)]); break;
	case 5: q += "/" + ptr_escape(KEYS[c.pickn(NKEYS)]); break;
	case 6: q += "/" + str(c.range(0, 12)); break;
	case 7: q += "/0" + str(c.range(0, 9)); break;
	case 8: q += c.coin(50) ? "/18446744073709551616" : "/18446744073709551617"; break;
	case 9:
		if (!q.empty() && q[0] == '/')
			q = q.substr(1);
		break;
	default: q += "/"; break;
	}
	return q;
}
} // namespace

void run_case(Choices &c, Ctx &ctx)
{
	LeakScope leak;
	g_dead.clear();
	if (ctx.mode == "literal")
	{
		std::string all;
		while (c.pos < c.bp->size())
			all += (char)c.byte();
		size_t z = all.find('\0');
		std::string text = all.substr(0, z), p = z == std::string::npos ? "" : all.substr(z + 1);
		json_object *j = json_tokener_parse(text.c_str());
		Val v = dump(j);
		json_object_put(j);
		T t(ctx, v);
		ctx.note("tree " + show(v, 300) + " pointer " + quote(p));
		for (int var = 0; var < 4; var++)
			t.get(p, var);
		t.same("after lookups");
		t.set(p, 777, 0);
		json_object_put(t.root);
		leak.check(ctx);
		return;
	}
	if (ctx.mode == "fmtlen")
	{
		uint64_t idx = c.bits(8);
		size_t L = 1 + idx % 600; // total pointer length
		bool two = idx >= 600;
		// tree {"<long key>": {"<key2>": [10,20]}, "<long key>x": 5}; the pointer to the inner array element has length L+... exactly chosen below
		Val v = Val::obj();
		std::string k1, k2;
		if (!two)
			k1 = std::string(L > 1 ? L - 1 : 0, 'k'); // "/" + k1 has length L
		else
		{
			size_t rest = L > 4 ? L - 4 : 0;       // "/" k1 "/" k2 "/0"
			k1 = std::string(rest / 2, 'a');
			k2 = std::string(rest - rest / 2, 'b');
		}
		Val inner = Val::obj();
		Val arr = Val::arr();
		arr.a.push_back(Val::i64(10));
		arr.a.push_back(Val::i64(20));
		inner.set(k2, arr);
		inner.set(k2 + "x", Val::i64(7));
		v.set(k1, two ? inner : arr);
		v.set(k1 + "x", Val::i64(5));
		if (k1.size() > 1)
			v.set(k1.substr(0, k1.size() - 1), Val::i64(6)); // the name one byte shorter exists too
		T t(ctx, v);
		std::string p = two ? "/" + k1 + "/" + k2 + "/0" : "/" + k1;
		ctx.note("pointer of " + str(p.size()) + " bytes");
		for (int var = 0; var < 4; var++)
			t.get(p, var);
		t.get(p + "x", 1);
		t.set(p, 4242, 1);
		t.set(p, 4243, 2);
		t.set(two ? "/" + k1 + "/" + k2 + "/-" : "/" + k1 + "y", 4244, 1);
		json_object_put(t.root);
		ctx.nontrivial(idx);
		leak.check(ctx);
		return;
	}
	TreeGenOpts o;
	o.max_depth = 4;
	o.max_nodes = 3 + c.len(30);
	o.any_bytes = false;
	o.doubles = false;
	for (size_t i = 0; i < NKEYS; i++)
		o.key_pool.push_back(KEYS[i]);
	TreeGen g(c, o);
	Val v = g.root();
	if (v.k == Val::Null)
		v = Val::arr();
	T t(ctx, v);
	ctx.note("tree " + show(v, 600));
	// every node path
	std::vector<std::string> paths;
	ptr_all_paths(t.model, "", paths);
	bool nt = false;
	for (auto &p : paths)
	{
		t.get(p, (int)c.pickn(4));
		if (std::count(p.begin(), p.end(), '/') >= 2 || p.find('~') != std::string::npos)
			nt = true;
	}
	ctx.label("all_paths_tree");
	// malformed / dangling pointers
	size_t nm = 2 + c.len(12);
	for (size_t i = 0; i < nm; i++)
	{
		std::string p = paths[c.pickn(paths.size())];
		size_t k = 1 + c.pickn(2);
		for (size_t j = 0; j < k; j++)
			p = mutate_ptr(c, p);
		ctx.note("get " + quote(p));
		if (t.get(p, (int)c.pickn(4)))
			ctx.label("mutated_pointer_resolves");
		else
			ctx.label("mutated_pointer_fails");
	}
	t.same("after lookups");
	// sets
	size_t ns = c.len(8);
	long id = 1000;
	for (size_t i = 0; i < ns; i++)
	{
		SpanGuard sg(c);
		paths.clear();
		ptr_all_paths(t.model, "", paths);
		std::string base = paths[c.pickn(paths.size())];
		std::string p;
		switch (c.pick({3, 4, 2, 2, 2, 3, 1}))
		{
		case 0: p = base; break;                                              // existing location (replace)
		case 1: p = base + "/" + ptr_escape(KEYS[c.pickn(NKEYS)]); break;     // new member / index-like token
		case 2: p = base + "/-"; break;
		case 3: { // index = length or beyond
			PtrErr e;
			Val *b = ptr_eval(t.model, base, e);
			size_t len = b && b->k == Val::Arr ? b->a.size() : 0;
			switch (c.pick({12, 2, 2}))
			{
			case 0: p = base + "/" + str(len + c.pickn(4)); break;
			case 1: p = base + "/" + str(len + (size_t)c.range(4, 2500)); break;                     // a long run of nulls is created
			default: p = base + "/" + str(((size_t)1 << c.range(40, 58)) + (size_t)c.range(0, 999)); break; // passes the guards, fails in the allocator
			}
			break;
		}
		case 4: p = base + "/" + std::string(KEYS[c.pickn(NKEYS)]); break; // raw (unescaped) key text: '~' may make it invalid
		case 5: p = mutate_ptr(c, base); break;
		default: p = base + "/18446744073709551615"; break;
		}
		ctx.note("set " + quote(p));
		t.set(p, c.coin(10) && !p.empty() ? -1 : id++, (int)c.pickn(3));
		ctx.label("set");
		nt = true;
	}
	// release: every value still in the tree dies with it, exactly once
	json_object_put(t.root);
	for (long x : g_dead)
		if (x < 0)
			ctx.fail("double-destroy", "a value was destroyed twice");
	for (long k = 1000; k < id; k++)
		if (!g_dead.count(k))
			ctx.fail("leak", "value " + str(k) + " was never destroyed");
	if (nt)
		ctx.nontrivial(hash_val(v, hash_u64(ns)));
	leak.check(ctx);
}
#include "engine_main.hpp"
