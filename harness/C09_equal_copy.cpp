// C09 – equality is a structural equivalence and deep copy gives an equal, disjoint tree.
#include "common.hpp"
#include "refjson.hpp"
#include "treegen.hpp"
#include "textgen.hpp"
#include "parseutil.hpp"
using namespace vf;

const char *HARNESS_ID = "C09";
std::vector<ModeInfo> harness_modes()
{
	return {{"equal", 0, "pairs/triples: independent, single deep mutation, member permutation; model equality vs json_object_equal; reflexive/symmetric/transitive"},
	        {"copy", 0, "deep copy of built, parsed and custom-serialiser trees: equal, identical text under flag sets, disjoint, independent under mutation and destruction"}};
}

namespace {
// model equality on values (json_object.h: json_object_equal)
static bool meq(const Val &a, const Val &b)
{
	if (a.k != b.k)
		return false;
	switch (a.k)
	{
	case Val::Null: return true;
	case Val::Bool: return a.b == b.b;
	case Val::Int: return a.mag == b.mag && (a.neg && a.mag) == (b.neg && b.mag);
	case Val::Dbl: return a.d == b.d;
	case Val::Str: return a.s == b.s;
	case Val::Arr:
		if (a.a.size() != b.a.size())
			return false;
		for (size_t i = 0; i < a.a.size(); i++)
			if (!meq(a.a[i], b.a[i]))
				return false;
		return true;
	case Val::Obj:
		if (a.o.size() != b.o.size())
			return false;
		for (auto &kv : a.o)
		{
			const Val *o = b.find(kv.first);
			if (!o || !meq(kv.second, *o))
				return false;
		}
		return true;
	}
	return false;
}
static bool has_nan(const Val &v)
{
	if (v.k == Val::Dbl && std::isnan(v.d))
		return true;
	for (auto &x : v.a)
		if (has_nan(x))
			return true;
	for (auto &kv : v.o)
		if (has_nan(kv.second))
			return true;
	return false;
}
// all node paths
static void collect(Val &v, std::vector<Val *> &out)
{
	out.push_back(&v);
	for (auto &x : v.a)
		collect(x, out);
	for (auto &kv : v.o)
		collect(kv.second, out);
}
static int depth_of(Val &root, Val *target, int d = 0)
{
	if (&root == target)
		return d;
	for (auto &x : root.a)
	{
		int r = depth_of(x, target, d + 1);
		if (r >= 0)
			return r;
	}
	for (auto &kv : root.o)
	{
		int r = depth_of(kv.second, target, d + 1);
		if (r >= 0)
			return r;
	}
	return -1;
}
static void permute(Choices &c, Val &v)
{
	if (v.k == Val::Obj && v.o.size() > 1)
	{
		for (size_t i = v.o.size() - 1; i > 0; i--)
			std::swap(v.o[i], v.o[c.pickn(i + 1)]);
	}
	for (auto &x : v.a)
		permute(c, x);
	for (auto &kv : v.o)
		permute(c, kv.second);
}
// one mutation at a random position; returns a description
static std::string mutate(Choices &c, Val &root, int &depth)
{
	std::vector<Val *> nodes;
	collect(root, nodes);
	Val *t = nodes[c.pickn(nodes.size())];
	depth = depth_of(root, t);
	switch (t->k)
	{
	case Val::Int:
		switch (c.pickn(5))
		{
		case 4:
			// the unsigned values a careless signed/unsigned comparison would confuse it with
			if (t->neg && t->mag)
			{
				bool wrap = c.coin(50);
				t->mag = wrap ? (uint64_t)0 - t->mag : 0; // two's-complement image, or the clamp to 0
				t->neg = false;
				t->as_u64 = true;
				return wrap ? "negative int64 -> the uint64 with the same bit pattern" : "negative int64 -> uint64 0";
			}
			else
			{
				// non-negative -> the negative int64 whose bit pattern / clamp image it is
				bool wrap = c.coin(50) && t->mag > (1ULL << 63);
				t->mag = wrap ? (uint64_t)0 - t->mag : (t->mag && t->mag <= (1ULL << 63) ? t->mag : 1);
				t->neg = true;
				t->as_u64 = false;
				return "non-negative integer -> a negative int64 (bit-pattern image / negation)";
			}
		case 0: t->as_u64 = !t->as_u64 && !(t->neg && t->mag); return "int64 node <-> uint64 node, same value";
		case 1: {
			double d = (double)t->mag * (t->neg ? -1 : 1);
			*t = Val::dbl(d);
			return "int -> double of the same numeric value";
		}
		case 2:
			t->mag ^= 1;
			if (t->neg && t->mag > (1ULL << 63))
				t->mag = (1ULL << 63) - 1; // (INT64_MIN has no negative neighbour)
			return "integer value changed by one";
		default:
			if (t->mag)
				t->neg = !t->neg;
			else
				t->mag = 1;
			if (t->neg && t->mag > (1ULL << 63))
				t->mag = 1ULL << 63;
			return "integer sign flipped";
		}
	case Val::Dbl:
		switch (c.pickn(4))
		{
		case 0: t->d = bits_dbl(dbl_bits(t->d) ^ 1); t->numtext.clear(); return "double changed by one ulp";
		case 1: t->d = -t->d; t->numtext.clear(); return "double negated (0.0 vs -0.0 stay equal)";
		case 2:
			if (t->d == std::floor(t->d) && std::fabs(t->d) < 9e15)
			{
				*t = Val::i64((int64_t)t->d);
				return "double -> int of the same numeric value";
			}
			t->d += 1;
			t->numtext.clear();
			return "double + 1";
		default: t->d = NAN; t->numtext.clear(); return "double -> NaN";
		}
	case Val::Str:
		switch (c.pickn(4))
		{
		case 0: t->s += 'x'; return "string lengthened";
		case 1:
			if (!t->s.empty())
			{
				t->s[t->s.size() - 1] ^= 1;
				return "last byte changed";
			}
			t->s = std::string(1, '\0');
			return "empty -> one NUL byte";
		case 2: t->s += std::string("\0z", 2); return "suffix after embedded NUL added";
		default:
			if (!t->s.empty())
			{
				t->s.pop_back();
				return "string shortened";
			}
			t->s = "a";
			return "empty -> a";
		}
	case Val::Bool: t->b = !t->b; return "boolean flipped";
	case Val::Null: *t = c.coin(50) ? Val::boolean(false) : Val::i64(0); return "null -> false/0";
	case Val::Arr:
		switch (c.pickn(3))
		{
		case 0: t->a.push_back(Val::null()); return "null element appended";
		case 1:
			if (t->a.size() >= 2)
			{
				std::swap(t->a[0], t->a[t->a.size() - 1]);
				return "first and last element swapped";
			}
			t->a.push_back(Val::i64(1));
			return "element appended";
		default:
			if (!t->a.empty())
			{
				t->a.pop_back();
				return "last element removed";
			}
			*t = Val::obj();
			return "empty array -> empty object";
		}
	case Val::Obj:
		switch (c.pickn(3))
		{
		case 0: t->set("k\x01new", Val::null()); return "member with null value added";
		case 1:
			if (!t->o.empty())
			{
				t->o.erase(t->o.begin() + c.pickn(t->o.size()));
				return "member removed";
			}
			*t = Val::arr();
			return "empty object -> empty array";
		default:
			if (!t->o.empty())
			{
				size_t i = c.pickn(t->o.size());
				std::string nk = t->o[i].first + "'";
				if (!t->find(nk))
					t->o[i].first = nk;
				return "member renamed";
			}
			t->set("", Val::null());
			return "member with empty name added";
		}
	}
	return "none";
}

static void addresses(json_object *j, std::set<json_object *> &out)
{
	if (!j)
		return;
	out.insert(j);
	if (json_object_get_type(j) == json_type_array)
		for (size_t i = 0; i < json_object_array_length(j); i++)
			addresses(json_object_array_get_idx(j, i), out);
	else if (json_object_get_type(j) == json_type_object)
	{
		json_object_iterator it = json_object_iter_begin(j), e = json_object_iter_end(j);
		while (!json_object_iter_equal(&it, &e))
		{
			addresses(json_object_iter_peek_value(&it), out);
			json_object_iter_next(&it);
		}
	}
}
static std::string text_of(json_object *j, int flags)
{
	size_t l = 0;
	const char *t = json_object_to_json_string_length(j, flags, &l);
	return t ? std::string(t, l) : "<NULL>";
}
// in-place mutation of every node type reachable in j
static void scribble(json_object *j, int salt)
{
	if (!j)
		return;
	switch (json_object_get_type(j))
	{
	case json_type_string: json_object_set_string(j, salt & 1 ? "scribbled over with a long string" : "s"); break;
	case json_type_int: json_object_set_int64(j, 424242 + salt); break;
	case json_type_double: json_object_set_double(j, 0.125 + salt); break;
	case json_type_boolean: json_object_set_boolean(j, !json_object_get_boolean(j)); break;
	case json_type_array: {
		size_t n = json_object_array_length(j);
		for (size_t i = 0; i < n; i++)
			scribble(json_object_array_get_idx(j, i), salt + 1);
		json_object_array_add(j, json_object_new_string("added"));
		if (n >= 2 && (salt & 1))
			json_object_array_del_idx(j, 0, 1);
		break;
	}
	case json_type_object: {
		std::vector<std::string> keys;
		json_object_iterator it = json_object_iter_begin(j), e = json_object_iter_end(j);
		while (!json_object_iter_equal(&it, &e))
		{
			keys.push_back(json_object_iter_peek_name(&it));
			scribble(json_object_iter_peek_value(&it), salt + 1);
			json_object_iter_next(&it);
		}
		json_object_object_add(j, "zz-added", json_object_new_int(1));
		if (!keys.empty())
		{
			if (salt & 1)
				json_object_object_del(j, keys[0].c_str());
			else
				json_object_object_add(j, keys.back().c_str(), json_object_new_string("replaced"));
		}
		break;
	}
	default: break;
	}
}
} // namespace

static void run_equal(Choices &c, Ctx &ctx)
{
	TreeGenOpts o;
	o.max_depth = 5;
	o.max_nodes = 3 + c.len(40);
	o.nonfinite = true;
	TreeGen g(c, o);
	Val a = g.root(), b, d;
	std::string how;
	int mdepth = 0;
	bool nt = false;
	switch (c.pick({2, 5, 3, 2}))
	{
	case 0: { // independent
		TreeGen g2(c, o);
		b = g2.root();
		d = c.coin(50) ? a : b;
		how = "independent trees";
		ctx.label("independent");
		break;
	}
	case 1: // one mutation
		b = a;
		how = "one mutation: " + mutate(c, b, mdepth);
		d = c.coin(50) ? a : b;
		if (c.coin(30))
			permute(c, d);
		ctx.label("mutation");
		if (mdepth >= 2)
		{
			nt = true;
			ctx.label("mutation_depth_ge2");
		}
		if (how.find("uint64") != std::string::npos)
			nt = true;
		break;
	case 2: // permutations
		b = a;
		permute(c, b);
		d = a;
		permute(c, d);
		how = "member permutations";
		ctx.label("permutation");
		nt = a.nesting() >= 1;
		break;
	default: { // two mutations: a~b~d chains for transitivity
		b = a;
		how = "chain: " + mutate(c, b, mdepth);
		d = b;
		int dd;
		how += " / " + mutate(c, d, dd);
		ctx.label("chain");
		nt = true;
		break;
	}
	}
	ctx.note("a=" + show(a, 500) + "\nb=" + show(b, 500) + "\nc=" + show(d, 300) + "\n" + how);
	// string nodes reach their contents through different storage histories in the three trees
	int sm[3] = {(int)c.pickn(4), (int)c.pickn(4), (int)c.pickn(4)};
	if (sm[0] != sm[1] || sm[1] != sm[2])
		ctx.label("mixed_string_storage");
	build_str_mode() = sm[0];
	json_object *ja = build(a);
	build_str_mode() = sm[1];
	json_object *jb = build(b);
	build_str_mode() = sm[2];
	json_object *jd = build(d);
	build_str_mode() = 0;
	auto eq = [&](json_object *x, json_object *y) { return json_object_equal(x, y) != 0; };
	struct P {
		json_object *x, *y;
		const Val *vx, *vy;
		const char *n;
	} pairs[] = {{ja, jb, &a, &b, "a,b"}, {jb, jd, &b, &d, "b,c"}, {ja, jd, &a, &d, "a,c"}};
	bool e[3];
	int i = 0;
	for (auto &p : pairs)
	{
		bool want = meq(*p.vx, *p.vy);
		bool got = eq(p.x, p.y), rev = eq(p.y, p.x);
		e[i++] = got;
		if (got != rev)
			ctx.fail("symmetry", std::string("equal(") + p.n + ") = " + str(got) + " but the reverse = " + str(rev) + " | " + how);
		if (got != want)
			ctx.fail("equality", std::string("json_object_equal(") + p.n + ") = " + str(got) + ", equality of denoted values = " + str(want) + " | " + how +
			                         " | " + show(*p.vx, 200) + " vs " + show(*p.vy, 200));
	}
	if (e[0] && e[1] && !e[2])
		ctx.fail("transitivity", "equal(a,b) and equal(b,c) but not equal(a,c)");
	if (!eq(ja, ja) || !eq(jb, jb) || !eq(nullptr, nullptr))
		ctx.fail("reflexivity", "a node is not equal to itself");
	if ((ja && eq(ja, nullptr)) || (ja && eq(nullptr, ja)))
		ctx.fail("equality", "a non-null node equals null");
	json_object_put(ja);
	json_object_put(jb);
	json_object_put(jd);
	if (nt)
		ctx.nontrivial(hash_val(a, hash_val(b)));
}

// a serialiser function that needs no user data
static int ser_plain(json_object *, printbuf *pb, int, int) { return printbuf_memappend(pb, "\"plain-custom\"", 14); }
// a shallow-copy callback that only delegates (json_object.h: custom callbacks may call the default)
static int g_delegated;
static int copy_delegate(json_object *src, json_object *parent, const char *key, size_t index, json_object **dst)
{
	g_delegated++;
	return json_c_shallow_copy_default(src, parent, key, index, dst);
}
static void run_copy(Choices &c, Ctx &ctx)
{
	json_object *src = nullptr;
	std::string origin;
	std::vector<char *> borrowed_keys; // released as soon as the source object is gone
	struct FreeKeys {
		std::vector<char *> &v;
		~FreeKeys()
		{
			for (char *k : v)
				free(k);
			v.clear();
		}
	} free_keys{borrowed_keys};
	switch (c.pick({5, 3, 2}))
	{
	case 0: {
		TreeGenOpts o;
		o.max_depth = 5;
		o.max_nodes = 3 + c.len(40);
		TreeGen g(c, o);
		Val v = g.root();
		build_str_mode() = (int)c.pickn(4);
		src = build(v);
		build_str_mode() = 0;
		origin = "built tree " + show(v, 400);
		ctx.label("src_built");
		break;
	}
	case 1: {
		TextGenOpts o;
		o.allow_nul_key = false;
		o.max_depth = 5;
		o.max_nodes = 3 + c.len(30);
		TextGen g(c, o);
		std::string text = g.document();
		src = json_tokener_parse(text.c_str());
		origin = "parsed " + quote(text, 400);
		ctx.label("src_parsed");
		break;
	}
	default: {
		// custom serialiser nodes carrying user data text
		src = json_object_new_object();
		size_t n = 1 + c.pickn(4);
		for (size_t i = 0; i < n; i++)
		{
			json_object *x;
			std::string txt = "\"ud" + str(i) + "\"";
			switch (c.pickn(3))
			{
			case 0: x = json_object_new_double(1.0 + (double)i); break;
			case 1: x = json_object_new_int(7); break;
			default: x = json_object_new_array(); break;
			}
			if (c.coin(30))
				json_object_set_serializer(x, ser_plain, nullptr, nullptr); // function only: no user data, no deleter
			else
				json_object_set_serializer(x, json_object_userdata_to_json_string, strdup(txt.c_str()), json_object_free_userdata);
			json_object_object_add(src, ("m" + str(i)).c_str(), x);
		}
		json_object_object_add(src, "ds", json_object_new_double_s(2.5, "2.500"));
		// members whose names live in caller-managed memory (JSON_C_OBJECT_ADD_CONSTANT_KEY: the caller keeps them alive
		// as long as *that* object lives - not its copies)
		for (size_t i = 0, nk = c.pickn(4); i < nk; i++)
		{
			std::string nm = "borrowed key " + str(i) + std::string(c.pickn(40), 'k');
			char *kb = (char *)malloc(nm.size() + 1);
			memcpy(kb, nm.c_str(), nm.size() + 1);
			borrowed_keys.push_back(kb);
			json_object_object_add_ex(src, kb, json_object_new_int((int)i), JSON_C_OBJECT_ADD_CONSTANT_KEY | JSON_C_OBJECT_ADD_KEY_IS_NEW);
		}
		if (!borrowed_keys.empty())
			ctx.label("src_borrowed_keys");
		origin = "object with user-data serialisers";
		ctx.label("src_custom_serializer");
		break;
	}
	}
	ctx.note(origin);
	if (!src)
		return; // JSON null: nothing to copy (deep_copy refuses a NULL source)
	Val before = dump(src);
	json_object *cp = nullptr;
	bool delegate = c.coin(30);
	g_delegated = 0;
	int rc = json_object_deep_copy(src, &cp, delegate ? copy_delegate : nullptr);
	if (delegate && rc == 0 && g_delegated == 0)
		ctx.fail("copy-callback", "the shallow-copy callback was never called");
	if (rc != 0 || !cp)
		ctx.fail("copy-failed", "json_object_deep_copy returned " + str(rc) + " for " + origin);
	// must refuse a non-NULL destination
	{
		json_object *dst2 = cp;
		if (json_object_deep_copy(src, &dst2, nullptr) == 0 || dst2 != cp)
			ctx.fail("copy-args", "deep_copy accepted a destination that already points to an object");
	}
	if (!has_nan(before) && (!json_object_equal(src, cp) || !json_object_equal(cp, src)))
		ctx.fail("copy-not-equal", "copy is not equal to its source: " + origin);
	std::vector<int> flags = {0, 1, 2, 4, 16, 2 | 8, 1 | 4 | 16, 32};
	if (c.coin(10))
	{
		flags.clear();
		for (int f = 0; f < 64; f++)
			flags.push_back(f);
	}
	std::vector<std::string> src_text, cp_text;
	for (int f : flags)
	{
		src_text.push_back(text_of(src, f));
		cp_text.push_back(text_of(cp, f));
		if (src_text.back() != cp_text.back())
			ctx.fail("copy-text", "copy serialises differently under flags " + str(f) + ": " + quote(cp_text.back(), 200) + " vs source " + quote(src_text.back(), 200));
	}
	std::set<json_object *> as, ac;
	addresses(src, as);
	addresses(cp, ac);
	for (auto p : ac)
		if (as.count(p))
			ctx.fail("copy-shares-node", "copy and source share a node");
	// mutate one side, the other must not change; then destroy one and read the other
	bool mutate_copy = c.coin(50);
	json_object *victim = mutate_copy ? cp : src, *other = mutate_copy ? src : cp;
	std::vector<std::string> &other_text = mutate_copy ? src_text : cp_text;
	scribble(victim, (int)c.pickn(4));
	std::string why;
	Val after = dump(other);
	if (!same_val(before, after, why, DBL_BITS))
		ctx.fail("copy-not-independent", std::string("mutating the ") + (mutate_copy ? "copy" : "source") + " changed the other tree: " + why);
	for (size_t i = 0; i < flags.size(); i++)
		if (text_of(other, flags[i]) != other_text[i])
			ctx.fail("copy-not-independent", "mutating one tree changed the other's serialisation under flags " + str(flags[i]));
	json_object_put(victim);
	if (victim == src)
	{
		// the source is gone: so may be the memory it borrowed its member names from
		for (char *k : borrowed_keys)
		{
			memset(k, 'Z', strlen(k));
			free(k);
		}
		borrowed_keys.clear();
	}
	after = dump(other); // ASan: any shared storage would be a use-after-free here
	if (!same_val(before, after, why, DBL_BITS))
		ctx.fail("copy-not-independent", "destroying one tree changed the other: " + why);
	if (text_of(other, 0) != other_text[0])
		ctx.fail("copy-not-independent", "destroying one tree changed the other's serialisation");
	// keys must be owned by the surviving tree too
	json_object_put(other);
	ctx.nontrivial(hash_val(before, hash_u64(mutate_copy)));
}

void run_case(Choices &c, Ctx &ctx)
{
	LeakScope leak;
	if (ctx.mode == "copy")
		run_copy(c, ctx);
	else
		run_equal(c, ctx);
	leak.check(ctx);
}
#include "engine_main.hpp"
