#!/usr/bin/env python3
"""Regenerates MANIFEST.json from props.py (keeps the two in sync)."""
import json, os, sys
sys.path.insert(0, os.path.dirname(os.path.abspath(__file__)))
from props import PROPS
ids = [json.loads(l)["id"] for l in open(os.path.join(os.path.dirname(__file__), "properties.jsonl"))]
checks = []
for pid in ids:
    if pid not in PROPS or PROPS[pid].get("unclaimed"):
        continue
    p = PROPS[pid]
    checks.append(dict(
        property_id=pid,
        quick_cmd="python3 check.py %s --tier quick" % pid,
        thorough_cmd="python3 check.py %s --tier thorough" % pid,
        evidence_file="/verif/evidence/%s.json" % pid,
        replay_cmd_template="python3 check.py %s --replay {path}" % pid,
        engine="choice-sequence pbt driver + libFuzzer (engine/)",
        level_claimed=dict(category=p["level"], text=p["level_text"], design_ref="DESIGN.md section 6/" + pid),
        level_note=p["level_note"],
        technique=p["technique"]))
na = [dict(property_id=i, reason=PROPS.get(i, {}).get("unclaimed", "check not built yet in this revision of /verif (work in progress; see DESIGN.md section 6 for the planned design)"))
      for i in ids if i not in PROPS or PROPS[i].get("unclaimed")]
m = dict(version=1,
         setup_cmd="python3 check.py --setup",
         hooks=dict(guard="JSON_C_VERIF", enable="no source hooks: checks compile /repo's .c files directly with sanitizers and interpose malloc/read/write/locale at link time (-Wl,--wrap); the tree's own build options -DENABLE_THREADING and -DOVERRIDE_GET_RANDOM_SEED are used for C06/C18",
                    baseline_off_cmd="cmake -S /repo -B /repo/_build >/dev/null && cmake --build /repo/_build -j8 >/dev/null && cd /repo/_build && USE_VALGRIND=0 ctest -j8 --timeout 900",
                    source_commits=[], add_only=True),
         engines=[dict(name="vf-engine", path="/verif/engine", serves_properties=[c["property_id"] for c in checks],
                       kind_free_text="Hypothesis-style recorded choice sequence; one decoder per property shared by a random pbt driver (shrinking, replay files) and libFuzzer; reference models under /verif/model")],
         checks=checks, not_applicable=na,
         notes="VERIF_SEED feeds every generator; VERIF_REPO overrides the tree under test (used only by self-tests). Known findings: known_findings.txt.")
json.dump(m, open(os.path.join(os.path.dirname(__file__), "MANIFEST.json"), "w"), indent=1)
print("claimed:", [c["property_id"] for c in checks])
