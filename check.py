#!/usr/bin/env python3
"""Driver for the json-c property checks (see DESIGN.md section 5).

  check.py <id> --tier quick|thorough        run the check, write evidence/<id>.json
  check.py <id> --replay <file>              re-run one saved case
  check.py --setup                           build everything that can be built ahead

Exit 0: property held on everything explored (KNOWN-FINDING / INCONCLUSIVE lines possible)
Exit 1: at least one "VIOLATION property=<id> replay=<path>" line was printed
Exit 2: the check could not be built/run at all (no VIOLATION line)
"""
import sys, os, json, subprocess, hashlib, time, shutil, re, glob, fcntl, argparse, struct

VERIF = os.path.dirname(os.path.abspath(__file__))
sys.path.insert(0, VERIF)
REPO = os.environ.get("VERIF_REPO", "/repo")
BUILD = os.environ.get("VERIF_BUILD", os.path.join(VERIF, "build"))
NCPU = os.cpu_count() or 4
CC, CXX = "clang", "clang++"

LIB_CONFIGS = {
    # name: (cflags for the library objects, link flags)
    "asan": (["-O1", "-g", "-fno-omit-frame-pointer", "-fsanitize=address,undefined",
              "-fno-sanitize-recover=undefined"], ["-fsanitize=address,undefined"]),
    "asanfuzz": (["-O1", "-g", "-fno-omit-frame-pointer", "-fsanitize=address,undefined,fuzzer-no-link",
                  "-fno-sanitize-recover=undefined"], ["-fsanitize=address,undefined,fuzzer"]),
    "asanseed": (["-O1", "-g", "-fno-omit-frame-pointer", "-fsanitize=address,undefined",
                  "-fno-sanitize-recover=undefined",
                  "-DOVERRIDE_GET_RANDOM_SEED=extern int verif_seed_hook(void); return verif_seed_hook()"],
                 ["-fsanitize=address,undefined"]),
    "plain": (["-O2", "-g"], []),
    "tsanthr": (["-O1", "-g", "-fno-omit-frame-pointer", "-fsanitize=thread", "-DENABLE_THREADING=1",
                 "-DOVERRIDE_GET_RANDOM_SEED=extern int verif_seed_hook(void); return verif_seed_hook()"],
                ["-fsanitize=thread", "-pthread"]),
    "asanthr": (["-O1", "-g", "-fno-omit-frame-pointer", "-fsanitize=address,undefined", "-fno-sanitize-recover=undefined", "-DENABLE_THREADING=1",
                 "-DOVERRIDE_GET_RANDOM_SEED=extern int verif_seed_hook(void); return verif_seed_hook()"],
                ["-fsanitize=address,undefined", "-pthread"]),
    "plainthr": (["-O1", "-g", "-DENABLE_THREADING=1",
                  "-DOVERRIDE_GET_RANDOM_SEED=extern int verif_seed_hook(void); return verif_seed_hook()"],
                 ["-pthread"]),
}
WRAP_SYMS = "malloc,calloc,realloc,strdup,free,vasprintf,newlocale,duplocale,freelocale"
WRAP_LINK = ["-Wl," + ",".join("--wrap=" + s for s in WRAP_SYMS.split(","))]
WRAP_IO_LINK = ["-Wl,--wrap=read,--wrap=write"]

FALLBACK_SOURCES = ["arraylist.c", "debug.c", "json_c_version.c", "json_object.c", "json_object_iterator.c",
                    "json_tokener.c", "json_util.c", "json_visit.c", "linkhash.c", "printbuf.c", "random_seed.c",
                    "strerror_override.c", "json_pointer.c", "json_patch.c"]


class BuildError(Exception):
    pass


def sha(*parts):
    h = hashlib.sha1()
    for p in parts:
        h.update(p if isinstance(p, bytes) else str(p).encode())
        h.update(b"\0")
    return h.hexdigest()[:16]


def file_hash(paths):
    h = hashlib.sha1()
    for p in sorted(paths):
        h.update(os.path.basename(p).encode())
        try:
            with open(p, "rb") as f:
                h.update(f.read())
        except OSError:
            h.update(b"<missing>")
    return h.hexdigest()[:16]


class Lock:
    def __init__(self, name):
        os.makedirs(BUILD, exist_ok=True)
        self.path = os.path.join(BUILD, name + ".lock")

    def __enter__(self):
        self.f = open(self.path, "w")
        fcntl.flock(self.f, fcntl.LOCK_EX)

    def __exit__(self, *a):
        fcntl.flock(self.f, fcntl.LOCK_UN)
        self.f.close()


def big_stack():
    # deep (2000-level) documents recurse in the harness models and in json-c's own destructor
    import resource
    try:
        resource.setrlimit(resource.RLIMIT_STACK, (1 << 30, resource.RLIM_INFINITY))
    except (ValueError, OSError):
        pass


def run(cmd, **kw):
    return subprocess.run(cmd, stdout=subprocess.PIPE, stderr=subprocess.STDOUT, text=True, **kw)


def prune(parent, keep=8):
    try:
        ds = [os.path.join(parent, d) for d in os.listdir(parent)]
    except OSError:
        return
    ds = [d for d in ds if os.path.isdir(d)]
    ds.sort(key=lambda d: os.path.getmtime(d), reverse=True)
    for d in ds[keep:]:
        shutil.rmtree(d, ignore_errors=True)


def repo_sources():
    try:
        txt = open(os.path.join(REPO, "CMakeLists.txt")).read()
        names = re.findall(r"\$\{PROJECT_SOURCE_DIR\}/([A-Za-z0-9_]+\.c)\b", txt)
        names = [n for i, n in enumerate(names) if n not in names[:i]]
        names = [n for n in names if os.path.exists(os.path.join(REPO, n)) and n != "libjson.c"]
        if len(names) >= 10:
            return names
    except OSError:
        pass
    return [n for n in FALLBACK_SOURCES if os.path.exists(os.path.join(REPO, n))]


def build_cfg():
    """config.h / json_config.h / json.h from a real cmake configure of the tree."""
    ins = [os.path.join(REPO, "CMakeLists.txt")] + glob.glob(os.path.join(REPO, "cmake", "*")) + \
        glob.glob(os.path.join(REPO, "*.in")) + glob.glob(os.path.join(REPO, "*.cmakein"))
    h = file_hash([p for p in ins if os.path.isfile(p)])
    d = os.path.join(BUILD, "cfg", h)
    with Lock("cfg"):
        if not os.path.exists(os.path.join(d, "ok")):
            shutil.rmtree(d, ignore_errors=True)
            os.makedirs(d)
            r = run(["cmake", "-S", REPO, "-B", d, "-DCMAKE_BUILD_TYPE=Debug", "-DBUILD_TESTING=OFF",
                     "-DCMAKE_C_COMPILER=" + CC])
            if r.returncode != 0 or not os.path.exists(os.path.join(d, "config.h")):
                raise BuildError("cmake configure failed:\n" + r.stdout[-3000:])
            open(os.path.join(d, "ok"), "w").close()
            prune(os.path.join(BUILD, "cfg"), 4)
        os.utime(d)
    return d, h


def build_lib(config):
    cfgdir, cfgh = build_cfg()
    srcs = repo_sources()
    hdrs = glob.glob(os.path.join(REPO, "*.h"))
    cflags, _ = LIB_CONFIGS[config]
    h = sha(cfgh, file_hash([os.path.join(REPO, s) for s in srcs] + hdrs), config, " ".join(cflags), ",".join(srcs))
    d = os.path.join(BUILD, "lib", config + "-" + h)
    with Lock("lib-" + config):
        if not os.path.exists(os.path.join(d, "libjsonc.a")):
            shutil.rmtree(d, ignore_errors=True)
            os.makedirs(d)
            procs = []
            for s in srcs:
                o = os.path.join(d, s[:-2] + ".o")
                cmd = [CC, "-std=gnu99", "-D_GNU_SOURCE", "-D_REENTRANT", "-w", "-I" + cfgdir, "-I" + REPO] + cflags + \
                    ["-c", os.path.join(REPO, s), "-o", o]
                procs.append((s, o, subprocess.Popen(cmd, stdout=subprocess.PIPE, stderr=subprocess.STDOUT, text=True)))
            objs = []
            for s, o, p in procs:
                out, _ = p.communicate()
                if p.returncode != 0:
                    shutil.rmtree(d, ignore_errors=True)
                    raise BuildError("compiling %s failed:\n%s" % (s, out[-3000:]))
                objs.append(o)
            r = run(["ar", "rcs", os.path.join(d, "libjsonc.a")] + objs)
            if r.returncode != 0:
                raise BuildError("ar failed: " + r.stdout)
            prune(os.path.join(BUILD, "lib"), 14)
        os.utime(d)
    return d, h, cfgdir


def build_harness(pid, prop, config, fuzz=False):
    libdir, libh, cfgdir = build_lib(config)
    src = os.path.join(VERIF, "harness", prop["harness"])
    deps = [src] + glob.glob(os.path.join(VERIF, "engine", "*")) + glob.glob(os.path.join(VERIF, "model", "*"))
    cflags, ldflags = LIB_CONFIGS[config]
    h = sha(libh, file_hash(deps), config, fuzz, json.dumps(prop.get("link", [])))
    d = os.path.join(BUILD, "bin")
    os.makedirs(d, exist_ok=True)
    exe = os.path.join(d, "%s-%s%s-%s" % (pid, config, "-fuzz" if fuzz else "", h))
    with Lock("bin-" + pid + config):
        if not os.path.exists(exe):
            for old in glob.glob(os.path.join(d, "%s-%s%s-*" % (pid, config, "-fuzz" if fuzz else ""))):
                if time.time() - os.path.getmtime(old) > 3600:
                    try:
                        os.remove(old)
                    except OSError:
                        pass
            hflags = [f for f in cflags if not f.startswith("-DOVERRIDE") and not f.startswith("-DENABLE_THR")]
            hflags = [f.replace(",fuzzer-no-link", "") for f in hflags]
            extra_c = []
            objs = []
            link = list(ldflags)
            if prop.get("wrap_alloc", True) and config not in ("tsanthr", "plainthr", "asanthr"):
                wo = os.path.join(d, "wrap_alloc-%s.o" % sha(config, file_hash([os.path.join(VERIF, "engine", "wrap_alloc.c")])))
                if not os.path.exists(wo):
                    r = run([CC, "-O1", "-g", "-c", os.path.join(VERIF, "engine", "wrap_alloc.c"), "-o", wo + ".tmp"])
                    if r.returncode != 0:
                        raise BuildError("wrap_alloc.c: " + r.stdout)
                    os.rename(wo + ".tmp", wo)
                objs.append(wo)
                link += WRAP_LINK
            if prop.get("wrap_io"):
                link += WRAP_IO_LINK
            if config in ("asanseed", "tsanthr", "plainthr", "asanthr"):
                extra_c.append("-DVERIF_SEED_HOOK=1")
            if config in ("tsanthr", "plainthr", "asanthr"):
                extra_c.append("-DVERIF_THREADED=1")
            cmd = [CXX, "-std=gnu++17", "-D_GNU_SOURCE", "-Wall", "-Wno-unused-function", "-Wno-unused-variable",
                   "-I" + cfgdir, "-I" + REPO, "-I" + os.path.join(VERIF, "engine"), "-I" + os.path.join(VERIF, "model")] + \
                hflags + extra_c + (["-DVERIF_FUZZ=1"] if fuzz else []) + \
                [src] + objs + [os.path.join(libdir, "libjsonc.a")] + link + ["-lm", "-o", exe + ".tmp"]
            r = run(cmd)
            if r.returncode != 0:
                raise BuildError("building harness %s (%s) failed:\n%s" % (pid, config, r.stdout[-6000:]))
            os.rename(exe + ".tmp", exe)
    return exe


def build_tool(name):
    src = os.path.join(VERIF, "engine", name + ".cpp")
    exe = os.path.join(BUILD, "bin", name + "-" + file_hash([src]))
    os.makedirs(os.path.dirname(exe), exist_ok=True)
    with Lock("tool-" + name):
        if not os.path.exists(exe):
            r = run(["g++", "-O2", "-std=gnu++17", src, "-o", exe + ".tmp"])
            if r.returncode != 0:
                raise BuildError(r.stdout)
            os.rename(exe + ".tmp", exe)
    return exe


def build_locale():
    """Synthetic comma-decimal locale xx_XX under build/locale (DESIGN section 3)."""
    d = os.path.join(BUILD, "locale")
    with Lock("locale"):
        if os.path.exists(os.path.join(d, "xx_XX", "LC_NUMERIC")):
            return d
        os.makedirs(d, exist_ok=True)
        r = run([sys.executable, os.path.join(VERIF, "locale", "mklocale.py"), d])
        if r.returncode != 0:
            raise BuildError("locale generation failed:\n" + r.stdout[-2000:])
    return d


# ------------------------------------------------------------------ known findings
def load_known():
    known, fixed = [], []
    p = os.path.join(VERIF, "known_findings.txt")
    if not os.path.exists(p):
        return known, fixed
    for line in open(p):
        line = line.strip()
        if line.startswith("known:"):
            m = re.match(r"known:\s+property=(\S+)\s+key=(\S+)\s+probe=(\S+)\s+what=(.*)", line)
            if m:
                known.append(dict(property=m.group(1), key=m.group(2), probe=m.group(3), what=m.group(4)))
        elif line.startswith("fixed:"):
            m = re.match(r"fixed:\s+property=(\S+)\s+(\S+)\s+(.*)", line)
            if m:
                fixed.append(dict(property=m.group(1), commit=m.group(2), what=m.group(3)))
    return known, fixed


SAN_ENV = {
    "ASAN_OPTIONS": "allocator_may_return_null=1:max_allocation_size_mb=2048:detect_leaks=1:handle_abort=1:"
                    "abort_on_error=0:print_summary=1:malloc_context_size=12:detect_stack_use_after_return=0",
    "UBSAN_OPTIONS": "print_stacktrace=1:halt_on_error=1",
    "TSAN_OPTIONS": "halt_on_error=1:second_deadlock_stack=1:history_size=4",
    "LSAN_OPTIONS": "print_suppressions=0",
}


def child_env(prop, extra=None):
    e = dict(os.environ)
    e.update(SAN_ENV)
    if prop.get("needs_locale"):
        e["LOCPATH"] = build_locale()
        # glibc keeps setlocale()/LOCPATH bookkeeping allocated until __libc_freeres; LeakSanitizer's at-exit
        # scan reports it.  Leaks of the code under test are caught per case (allocation + locale-object accounting).
        e["ASAN_OPTIONS"] = e["ASAN_OPTIONS"].replace("detect_leaks=1", "detect_leaks=0")
        e.pop("LC_ALL", None)
        e.pop("LANG", None)
    if extra:
        e.update(extra)
    return e


def replay_case(exe, prop, path, kf, mode=None, timeout=300):
    cmd = [exe, "--replay", path, "--kf", ",".join(kf)]
    if mode:
        cmd += ["--mode", mode]
    extra = {}
    try:
        with open(path, "rb") as f:
            for m in re.finditer(r"^env: (\w+)=(.*)$", f.read(4096).decode("latin1"), re.M):
                extra[m.group(1)] = m.group(2).strip()
    except OSError:
        pass
    extra.update(prop.get("replay_env", {}))
    try:
        r = run(cmd, env=child_env(prop, extra), timeout=timeout, preexec_fn=big_stack)
    except subprocess.TimeoutExpired:
        return "timeout", ""
    if r.returncode == 0:
        return "pass", r.stdout
    if r.returncode == 3:
        return "fail", r.stdout
    return "crash", r.stdout


def case_mode(path):
    try:
        with open(path, "rb") as f:
            head = f.read(4096).decode("latin1")
        m = re.search(r"^mode: (.*)$", head, re.M)
        return m.group(1).strip() if m else None
    except OSError:
        return None


def main():
    ap = argparse.ArgumentParser()
    ap.add_argument("pid", nargs="?")
    ap.add_argument("--tier", default=os.environ.get("VERIF_TIER", "quick"))
    ap.add_argument("--replay")
    ap.add_argument("--setup", action="store_true")
    ap.add_argument("--mode", help="restrict to one mode (development)")
    ap.add_argument("--scale", type=float, default=1.0, help="scale case counts (development)")
    ap.add_argument("--no-evidence", action="store_true")
    args = ap.parse_args()
    from props import PROPS

    if args.setup:
        try:
            build_tool("hashmerge")
            for pid, prop in PROPS.items():
                cfgs = set([prop.get("config", "asan")] + [s.get("config", prop.get("config", "asan"))
                                                             for t in ("quick", "thorough") for s in prop[t]])
                for c in cfgs:
                    if c == "fuzz":
                        continue
                    build_harness(pid, prop, c)
                if prop.get("needs_locale"):
                    build_locale()
        except BuildError as e:
            print("SETUP-FAILED:", e)
            return 2
        print("setup ok")
        return 0

    pid = args.pid
    if pid not in PROPS:
        print("unknown property", pid)
        return 2
    prop = PROPS[pid]
    tier = args.tier if args.tier in ("quick", "thorough") else "quick"
    try:
        seed = int(os.environ.get("VERIF_SEED", "1"))
    except ValueError:
        seed = 1
    known, fixed = load_known()
    known = [k for k in known if k["property"] == pid]
    kf_all = [k["key"] for k in known]
    t0 = time.time()
    dconfig = prop.get("config", "asan")

    try:
        exe0 = build_harness(pid, prop, dconfig)
        if args.replay and not os.path.isfile(args.replay):
            print("CHECK-NOT-RUN property=%s: replay file %s does not exist" % (pid, args.replay))
            return 2
        if args.replay:
            rcfg = prop.get("mode_config", {}).get(args.mode or case_mode(args.replay), prop.get("replay_config", dconfig))
            st, out = replay_case(build_harness(pid, prop, rcfg), prop, args.replay, kf_all, args.mode)
            print(out)
            if st == "pass":
                return 0
            print("VIOLATION property=%s replay=%s" % (pid, os.path.abspath(args.replay)))
            return 1
        hashmerge = build_tool("hashmerge")
    except BuildError as e:
        print("CHECK-NOT-RUN property=%s: build failed\n%s" % (pid, e))
        return 2

    rundir = os.path.join(BUILD, "run", "%s-%s-%d" % (pid, tier, os.getpid()))
    shutil.rmtree(rundir, ignore_errors=True)
    os.makedirs(rundir)
    founddir = os.path.join(VERIF, "found", pid)
    violations = []   # (replay path, message)
    notes = []
    inconclusive = []
    agg = dict(cases=0, nontrivial=0, labels={}, excluded={}, samples=[], enums=[], fuzz_execs=0, modes={})
    hashfiles = []

    def exe_for(config):
        return build_harness(pid, prop, config)

    def shrink_crash(exe, casefile, mode):
        """Out-of-process minimisation of a case that kills the harness (sanitizer report / abort): the in-process
        shrinker cannot survive those.  Block deletion over the hex buffer, keeping candidates that still crash."""
        try:
            txt = open(casefile, "rb").read().decode("latin1")
        except OSError:
            return
        m = re.search(r"^hex: ([0-9a-f]*)$", txt, re.M)
        if not m:
            return  # raw libFuzzer artifact: leave as is
        buf = bytes.fromhex(m.group(1))
        head = txt[:m.start()]
        t_end = time.time() + 25
        tmp = casefile + ".min"

        def crashes(b):
            with open(tmp, "w") as f:
                f.write(head + "hex: " + b.hex() + "\n")
            st, _ = replay_case(exe, prop, tmp, kf_all, mode, timeout=60)
            return st == "crash"
        runs = 0
        bs = max(1, len(buf) // 2)
        while bs >= 1 and runs < 160 and time.time() < t_end:
            i = 1  # keep the size byte
            changed = False
            while i < len(buf) and runs < 160 and time.time() < t_end:
                cand = buf[:i] + buf[i + bs:]
                runs += 1
                if len(cand) < len(buf) and crashes(cand):
                    buf = cand
                    changed = True
                else:
                    i += bs
            if not changed or bs == 1:
                bs //= 2
        with open(casefile, "w") as f:
            f.write(head + "hex: " + buf.hex() + "\n")
        try:
            os.remove(tmp)
        except OSError:
            pass

    def confirm_and_record(casefile, mode, config, what, stderr_tail=""):
        """Replay a failing case in a fresh process before reporting it."""
        exe = exe_for(config)
        if what.startswith("sanitizer report") and pid != "C18":
            shrink_crash(exe, casefile, mode)
        reps = prop.get("confirm_runs", 1)
        ok = True
        last = ""
        for _ in range(reps):
            st, out = replay_case(exe, prop, casefile, kf_all, mode)
            last = out
            if st == "pass":
                ok = False
                break
        orig = casefile[:-len(".fail.case")] + ".fail.orig.case" if casefile.endswith(".fail.case") else None
        if not ok and orig and os.path.exists(orig):
            # the shrunk case does not fail reliably (schedule-dependent failures): try the case as it was generated
            ok = True
            for _ in range(reps):
                st, out = replay_case(exe, prop, orig, kf_all, mode)
                last = out
                if st == "pass":
                    ok = False
                    break
            if ok:
                casefile = orig
        if not ok:
            inconclusive.append("failure did not reproduce from its replay file (%s): %s" % (casefile, what[:200]))
            return
        os.makedirs(founddir, exist_ok=True)
        data = open(casefile, "rb").read()
        dst = os.path.join(founddir, hashlib.sha1(data).hexdigest()[:12] + ".case")
        with open(dst, "wb") as f:
            f.write(data)
        with open(dst[:-5] + ".txt", "w") as f:
            f.write(what + "\n\n" + last[-8000:] + "\n" + stderr_tail[-6000:])
        violations.append((dst, what))

    try:
        # ---- 1. replay corpus: probes of known findings (must still fail) and regressions (must pass)
        probe_paths = set()
        for k in known:
            pp = os.path.join(VERIF, k["probe"])
            probe_paths.add(os.path.abspath(pp))
            others = [x for x in kf_all if x != k["key"]]
            cfgp = prop.get("replay_config", dconfig)
            st, out = replay_case(exe_for(cfgp), prop, pp, others, None)
            if st in ("fail", "crash"):
                print("KNOWN-FINDING: property=%s %s [key=%s probe=%s]" % (pid, k["what"], k["key"], k["probe"]))
            else:
                notes.append("known finding %s no longer reproduces from %s (status %s)" % (k["key"], k["probe"], st))
                print("NOTE: known finding key=%s no longer reproduces (probe %s: %s)" % (k["key"], k["probe"], st))
        n_replayed = 0
        for cf in sorted(glob.glob(os.path.join(VERIF, "replays", pid, "*.case"))):
            if os.path.abspath(cf) in probe_paths:
                continue
            m = case_mode(cf)
            cfgp = prop.get("mode_config", {}).get(m, prop.get("replay_config", dconfig))
            st, out = replay_case(exe_for(cfgp), prop, cf, kf_all, None)
            n_replayed += 1
            if st != "pass":
                tail = out[-1500:]
                violations.append((cf, "regression corpus case fails again: " + tail.strip().splitlines()[-1] if tail.strip() else "regression"))
        agg["replayed_regressions"] = n_replayed

        # ---- 2. generated search
        steps = [s for s in prop[tier] if not args.mode or s["mode"] == args.mode]
        for si, step in enumerate(steps):
            config = step.get("config", dconfig)
            mode = step["mode"]
            if step.get("fuzz"):
                run_fuzz_step(pid, prop, step, seed, kf_all, rundir, agg, hashfiles, confirm_and_record, inconclusive, args.scale)
                continue
            exe = exe_for(config)
            workers = min(step.get("workers", 4), NCPU)
            is_enum = step.get("enum", False)
            procs = []
            timecap = step.get("timecap", 1500 if tier == "quick" else 7200)
            for w in range(workers):
                out = os.path.join(rundir, "s%d-%s-w%d.json" % (si, mode, w))
                cmd = [exe, "--mode", mode, "--out", out, "--kf", ",".join(kf_all), "--seed", str(seed),
                       "--worker", str(w), "--timecap", str(timecap)]
                if is_enum:
                    cmd += ["--shard", "%d/%d" % (w, workers)]
                else:
                    cmd += ["--cases", str(max(1, int(step["cases"] * args.scale / workers)))]
                    if "maxbytes" in step:
                        cmd += ["--maxbytes", str(step["maxbytes"])]
                errf = open(out + ".stderr", "w")
                extra = {"VERIF_HASHSEED": str((seed * 7919 + w * 104729 + 17) % 2000000011)}
                if step.get("pin"):
                    extra["VERIF_PIN_BASE"] = str(0)
                extra.update(step.get("env", {}))
                p = subprocess.Popen(cmd, stdout=subprocess.DEVNULL, stderr=errf, env=child_env(prop, extra), preexec_fn=big_stack)
                procs.append((w, out, p, errf))
            for w, out, p, errf in procs:
                try:
                    p.wait(timeout=timecap * 1.5 + 600)
                except subprocess.TimeoutExpired:
                    p.kill()
                    p.wait()
                    inconclusive.append("mode %s worker %d exceeded the wall-clock cap" % (mode, w))
                    continue
                finally:
                    errf.close()
                stderr_tail = open(out + ".stderr", errors="replace").read()[-8000:]
                st = None
                if os.path.exists(out):
                    try:
                        st = json.load(open(out))
                    except ValueError:
                        st = None
                if st:
                    merge_stats(agg, st, mode)
                    if os.path.exists(out + ".hashes"):
                        hashfiles.append(out + ".hashes")
                    if st.get("timecap_hit"):
                        inconclusive.append("mode %s worker %d hit the wall-clock cap after %d cases" % (mode, w, st["cases"]))
                    if st.get("failure"):
                        f = st["failure"]
                        confirm_and_record(f["replay"], mode, config,
                                           "%s: %s\n%s" % (f["tag"], f["msg"], f.get("desc", "")))
                if p.returncode not in (0, 3):
                    crash = out + ".crash"
                    if os.path.exists(crash):
                        confirm_and_record(crash, mode, config,
                                           "sanitizer report / abort (exit %d)" % p.returncode, stderr_tail)
                    else:
                        inconclusive.append("mode %s worker %d died with exit %d without a case file: %s" %
                                            (mode, w, p.returncode, stderr_tail[-400:].replace("\n", " | ")))
                elif st is None:
                    inconclusive.append("mode %s worker %d produced no statistics" % (mode, w))
            if is_enum:
                m = agg["modes"].get(mode, {})
                agg["enums"].append(dict(name=mode, size=step.get("size"), evaluated=m.get("cases", 0),
                                         exhaustive=not any(mode in s for s in inconclusive)))
    except BuildError as e:
        print("CHECK-NOT-RUN property=%s: build failed\n%s" % (pid, e))
        return 2

    # ---- 3. generator health
    for lab, minimum in prop.get("min_labels", {}).get(tier, {}).items():
        have = agg["labels"].get(lab, 0)
        if have < minimum * min(1.0, args.scale) and not args.mode and not violations:
            inconclusive.append("label '%s' seen %d times, below the health threshold %d" % (lab, have, minimum))

    distinct = 0
    if hashfiles:
        r = run([hashmerge] + hashfiles)
        try:
            distinct = int(r.stdout.strip().split()[-1])
        except (ValueError, IndexError):
            distinct = 0

    for line in inconclusive:
        print("INCONCLUSIVE: property=%s %s" % (pid, line))
    seen = set()
    sigs = {}
    for path, what in violations:
        if path in seen:
            continue
        first = what.strip().splitlines()[0] if what.strip() else ""
        sig = re.sub(r"[0-9]+", "N", first)[:80]
        sigs[sig] = sigs.get(sig, 0) + 1
        tag = first.split(":")[0][:40]
        sigs[tag] = sigs.get(tag, 0) + 1
        if sigs[sig] > 2 or sigs[tag] > 3 or len(seen) >= 8:
            continue   # same symptom already reported; the case files stay under found/
        seen.add(path)
        print("VIOLATION property=%s replay=%s  # %s" % (pid, path, first[:300]))

    wall = time.time() - t0
    if not args.no_evidence and not args.mode:
        ev = dict(property_id=pid, tier=tier, seed=seed, level=prop["level"],
                  coverage=dict(evaluations=agg["cases"] + agg["fuzz_execs"], distinct_nontrivial=distinct,
                                rule=prop["rule"], samples=agg["samples"][:8] or ["(no sample recorded)"],
                                nontrivial_total=agg["nontrivial"], labels=agg["labels"], excluded=agg["excluded"],
                                per_mode=agg["modes"], exhaustive_subspaces=agg["enums"],
                                exhaustive=False, fuzz_execs=agg["fuzz_execs"],
                                replayed_regressions=agg.get("replayed_regressions", 0),
                                known_findings=[k["key"] for k in known],
                                inconclusive=inconclusive, notes=notes),
                  assumptions=prop.get("assumptions", []), wall_s=round(wall, 2), violations=len(seen))
        os.makedirs(os.path.join(VERIF, "evidence"), exist_ok=True)
        tmp = os.path.join(VERIF, "evidence", pid + ".json.tmp")
        with open(tmp, "w") as f:
            json.dump(ev, f, indent=1, sort_keys=True)
        os.rename(tmp, os.path.join(VERIF, "evidence", pid + ".json"))
    print("SUMMARY property=%s tier=%s seed=%d evaluations=%d distinct_nontrivial=%d violations=%d wall=%.1fs" %
          (pid, tier, seed, agg["cases"] + agg["fuzz_execs"], distinct, len(seen), wall))
    if args.mode:
        print("LABELS", json.dumps(agg["labels"], sort_keys=True), "EXCLUDED", json.dumps(agg["excluded"]))
    shutil.rmtree(rundir, ignore_errors=True)
    return 1 if seen else 0


def merge_stats(agg, st, mode):
    agg["cases"] += st.get("cases", 0)
    agg["nontrivial"] += st.get("nontrivial", 0)
    for k, v in st.get("labels", {}).items():
        agg["labels"][k] = agg["labels"].get(k, 0) + v
    for k, v in st.get("excluded", {}).items():
        agg["excluded"][k] = agg["excluded"].get(k, 0) + v
    m = agg["modes"].setdefault(mode, dict(cases=0, nontrivial=0))
    m["cases"] += st.get("cases", 0)
    m["nontrivial"] += st.get("nontrivial", 0)
    for s in st.get("samples", []):
        if len(agg["samples"]) < 8 and len([x for x in agg["samples"] if x.startswith("[" + mode + "]")]) < 3:
            agg["samples"].append("[" + mode + "] " + s)


def run_fuzz_step(pid, prop, step, seed, kf_all, rundir, agg, hashfiles, confirm_and_record, inconclusive, scale):
    """Coverage-guided campaign on the same decoder (libFuzzer)."""
    mode = step["mode"]
    exe = build_harness(pid, prop, "asanfuzz", fuzz=True)
    jobs = min(step.get("jobs", 4), NCPU)
    secs = max(5, int(step.get("secs", 60) * scale))
    procs = []
    for j in range(jobs):
        d = os.path.join(rundir, "fuzz-%s-%d" % (mode, j))
        os.makedirs(os.path.join(d, "corpus"))
        os.makedirs(os.path.join(d, "art"))
        # empty corpus for even jobs, seeded for odd ones
        if j % 2 == 1:
            for i, sp in enumerate(sorted(glob.glob(os.path.join(VERIF, "seeds", pid, "*")))[:200]):
                shutil.copy(sp, os.path.join(d, "corpus", "seed%d" % i))
        cmd = [exe, "-max_total_time=%d" % secs, "-seed=%d" % (seed * 1000 + j + 1), "-max_len=%d" % step.get("max_len", 2048),
               "-artifact_prefix=" + os.path.join(d, "art") + "/", "-print_final_stats=1", "-timeout=30", "-rss_limit_mb=4096",
               "-use_value_profile=%d" % (j % 2), os.path.join(d, "corpus")]
        dic = step.get("dict")
        if dic and os.path.exists(os.path.join(REPO, dic)):
            cmd.insert(1, "-dict=" + os.path.join(REPO, dic))
        env = child_env(prop, {"VERIF_MODE": mode, "VERIF_KF": ",".join(kf_all),
                               "VERIF_FUZZ_STATS": os.path.join(d, "stats.json")})
        env["ASAN_OPTIONS"] = env["ASAN_OPTIONS"].replace("handle_abort=1", "handle_abort=2")
        errf = open(os.path.join(d, "log"), "w")
        procs.append((d, subprocess.Popen(cmd, stdout=errf, stderr=errf, env=env, preexec_fn=big_stack), errf))
    for d, p, errf in procs:
        try:
            p.wait(timeout=secs * 3 + 600)
        except subprocess.TimeoutExpired:
            p.kill()
            p.wait()
        errf.close()
        log = open(os.path.join(d, "log"), errors="replace").read()
        m = re.search(r"stat::number_of_executed_units:\s+(\d+)", log)
        sp = os.path.join(d, "stats.json")
        if os.path.exists(sp):
            try:
                st = json.load(open(sp))
                n = st.get("cases", 0)
                st["cases"] = 0
                merge_stats(agg, st, "fuzz:" + mode)
                agg["fuzz_execs"] += n
                agg["modes"]["fuzz:" + mode]["cases"] += n
                if os.path.exists(sp + ".hashes"):
                    hashfiles.append(sp + ".hashes")
            except ValueError:
                pass
        elif m:
            agg["fuzz_execs"] += int(m.group(1))
        for art in glob.glob(os.path.join(d, "art", "*")):
            base = os.path.basename(art)
            if base.startswith("crash-") or base.startswith("leak-"):
                confirm_and_record(art, mode, prop.get("config", "asan"), "libFuzzer artifact " + base, log[-6000:])
            # timeout-/oom-/slow-unit- artifacts are load noise: inconclusive, never a violation
            elif base.startswith("timeout-") or base.startswith("oom-"):
                inconclusive.append("libFuzzer reported %s (load noise, not counted)" % base)


if __name__ == "__main__":
    sys.exit(main())
