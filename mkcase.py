#!/usr/bin/env python3
"""mkcase.py <harness> <mode> <why> [--hex HEX | --text TEXT]: write a replay case to stdout.
For 'literal text' modes the buffer is one size byte (00) followed by the text bytes."""
import sys
h, mode, why = sys.argv[1:4]
if sys.argv[4] == "--hex":
    hx = sys.argv[5]
else:
    hx = "00" + sys.argv[5].encode("utf-8", "surrogateescape").hex()
print("VERIFCASE v1\nharness: %s\nmode: %s\nkf: \nwhy: %s\nhex: %s" % (h, mode, why, hx))
