// Prints generated texts with the reference models' verdicts, for cross-checking against CPython
// (selftest/models_vs_python.py).  No json-c involved.
#include "engine.hpp"
#include "refjson.hpp"
#include "textgen.hpp"
using namespace vf;
const char *HARNESS_ID = "selftest";
std::vector<ModeInfo> harness_modes() { return {}; }
void run_case(Choices &, Ctx &) {}
void harness_init(const std::string &) {}
static std::string hexs(const std::string &s)
{
	static const char *h = "0123456789abcdef";
	std::string o;
	for (unsigned char c : s)
	{
		o += h[c >> 4];
		o += h[c & 15];
	}
	return o;
}
static void canon(const Val &v, std::string &o)
{
	switch (v.k)
	{
	case Val::Null: o += "null"; break;
	case Val::Bool: o += v.b ? "true" : "false"; break;
	case Val::Int: o += "{\"$i\":\"" + std::string(v.neg && v.mag ? "-" : "") + std::to_string(v.mag) + (v.huge ? "H" : "") + "\"}"; break;
	case Val::Dbl: {
		// the double the judge accepts: take strtod's answer and require the judge to agree
		double d = strtod(v.numtext.c_str(), nullptr);
		char b[64];
		snprintf(b, sizeof b, "{\"$d\":\"%016llx\",\"$ok\":%d}", (unsigned long long)dbl_bits(d), correctly_rounded(v.numtext, d));
		o += b;
		break;
	}
	case Val::Str: o += "{\"$s\":\"" + hexs(v.s) + "\"}"; break;
	case Val::Arr:
		o += "[";
		for (size_t i = 0; i < v.a.size(); i++)
		{
			if (i)
				o += ",";
			canon(v.a[i], o);
		}
		o += "]";
		break;
	case Val::Obj:
		o += "{\"$o\":[";
		for (size_t i = 0; i < v.o.size(); i++)
		{
			if (i)
				o += ",";
			o += "[\"" + hexs(v.o[i].first) + "\",";
			canon(v.o[i].second, o);
			o += "]";
		}
		o += "]}";
		break;
	}
}
int main(int argc, char **argv)
{
	uint64_t seed = argc > 1 ? strtoull(argv[1], 0, 10) : 1, n = argc > 2 ? strtoull(argv[2], 0, 10) : 1000;
	Rng rng(seed);
	for (uint64_t i = 0; i < n; i++)
	{
		Choices c;
		c.rng = &rng;
		c.max_bytes = 4000;
		c.own.push_back((uint8_t)(i % 100));
		c.init_size();
		TextGenOpts o;
		o.max_depth = 5;
		o.max_nodes = 30;
		TextGen g(c, o);
		std::string t = g.document();
		RefResult r = ref_parse(t);
		std::string cz;
		if (r.ok)
			canon(r.v, cz);
		printf("%s\t%d\t%d\t%s\n", hexs(t).c_str(), r.ok ? 1 : 0, g.f_surrogate ? 1 : 0, cz.c_str());
	}
	return 0;
}
