#!/usr/bin/env python3
"""Cross-checks /verif/model (reference RFC 8259 parser + exact rounding judge) against CPython's json/float,
an unrelated implementation.  A guard on the oracle, not the oracle.  usage: models_vs_python.py [seed] [n]"""
import json, struct, subprocess, sys, os
V = os.path.dirname(os.path.dirname(os.path.abspath(__file__)))
exe = os.path.join(V, "build", "model_tool")
os.makedirs(os.path.dirname(exe), exist_ok=True)
sys.path.insert(0, V)
import check
cfgdir, _ = check.build_cfg()
r = subprocess.run(["clang++", "-std=gnu++17", "-O1", "-I" + os.path.join(V, "engine"), "-I" + os.path.join(V, "model"), "-I" + cfgdir, "-I" + check.REPO, os.path.join(V, "selftest", "model_tool.cpp"), "-o", exe], stdout=subprocess.PIPE, stderr=subprocess.STDOUT, text=True)
if r.returncode:
    print(r.stdout[-3000:]); sys.exit(2)
seed, n = (sys.argv[1:] + ["1", "20000"])[:2]
out = subprocess.run([exe, seed, n], stdout=subprocess.PIPE, text=True).stdout
def bits(s):
    return "%016x" % struct.unpack(">Q", struct.pack(">d", float(s)))[0]
def conv(x):
    if isinstance(x, dict) and "$pyobj" in x:
        return {"$o": [[k, conv(v)] for k, v in x["$pyobj"]]}
    if isinstance(x, list):
        return [conv(y) for y in x]
    if isinstance(x, str):
        return {"$s": x.encode("utf-8", "surrogatepass").hex()}
    return x
bad = tot = compared = judge_bad = 0
for line in out.splitlines():
    thex, ok, surr, cz = line.split("\t")
    text = bytes.fromhex(thex).decode("utf-8")
    tot += 1
    if ok != "1":
        print("REFERENCE REJECTS GENERATED TEXT", text[:200]); bad += 1; continue
    if '"$ok":0' in cz or '"$ok":-1' in cz:
        judge_bad += 1
        print("JUDGE DISAGREES WITH GLIBC strtod", text[:200])
    if surr == "1":
        continue   # lone surrogates: json-c's U+FFFD policy differs from Python's by design
    def pf(s): return {"$d": bits(s), "$ok": 1}
    def pi(s):
        v = int(s)
        huge = v > 2**64 - 1 or v < -2**63
        if huge: v = 2**64 - 1 if v > 0 else -2**63
        return {"$i": str(v) + ("H" if huge else "")}
    def hook(pairs):
        d = {}
        for k, v in pairs: d[k] = v
        # first-occurrence position, last value
        seen, outp = set(), []
        for k, _ in pairs:
            if k not in seen:
                seen.add(k); outp.append((k.encode("utf-8", "surrogatepass").hex(), d[k]))
        return {"$pyobj": outp}
    try:
        py = json.loads(text, parse_float=pf, parse_int=pi, object_pairs_hook=hook)
    except Exception as e:
        print("PYTHON REJECTS", text[:200], e); bad += 1; continue
    mine = json.loads(cz)
    compared += 1
    if conv(py) != mine:
        bad += 1
        print("MISMATCH", text[:300]); print("  python", json.dumps(conv(py))[:300]); print("  model ", cz[:300])
print("texts %d compared %d mismatches %d judge-vs-strtod disagreements %d" % (tot, compared, bad, judge_bad))
sys.exit(1 if bad or judge_bad else 0)
