// Shared by all harnesses: json-c headers, allocation-interposer API, leak scope.
#pragma once
#include "engine.hpp"
extern "C" {
#include "json.h"
#include "printbuf.h"
#include "linkhash.h"
#include "arraylist.h"
#include "json_visit.h"
#include "json_util.h"
long verif_alloc_live(void);
long verif_alloc_peak(void);
void verif_alloc_peak_reset(void);
long verif_locale_live(void);
void verif_alloc_arm(long k, long k2);
long verif_alloc_disarm(void);
long verif_alloc_faults_fired(void);
const char *verif_alloc_fault_site(void);
}
namespace vf {
// live library allocations before/after; every json-c object the case created must be gone at check()
struct LeakScope {
	long a0, l0;
	LeakScope() : a0(verif_alloc_live()), l0(verif_locale_live()) {}
	void check(Ctx &ctx, const char *where = "")
	{
		long a1 = verif_alloc_live(), l1 = verif_locale_live();
		if (a1 != a0)
			ctx.fail("leak", std::string("live library allocations changed by ") + std::to_string(a1 - a0) +
			                     " over the case " + where);
		if (l1 != l0)
			ctx.fail("locale-leak", std::string("live locale objects changed by ") + std::to_string(l1 - l0) + " " + where);
	}
};
template <class T> inline std::string str(T v) { return std::to_string(v); }
} // namespace vf
