// Counts distinct 64-bit hashes over the per-worker ".hashes" files (distinct_nontrivial across workers).
#include <cstdio>
#include <cstdint>
#include <vector>
#include <algorithm>
int main(int argc, char **argv)
{
	std::vector<uint64_t> all;
	for (int i = 1; i < argc; i++)
	{
		FILE *f = fopen(argv[i], "rb");
		if (!f)
			continue;
		uint64_t buf[4096];
		size_t n;
		while ((n = fread(buf, 8, 4096, f)) > 0)
			all.insert(all.end(), buf, buf + n);
		fclose(f);
	}
	std::sort(all.begin(), all.end());
	size_t d = std::unique(all.begin(), all.end()) - all.begin();
	printf("%zu\n", d);
	return 0;
}
