// Driver: random generation + shrinking + replay (default) or libFuzzer entry
// (-DVERIF_FUZZ).  Included once, at the end of a harness TU.
#pragma once
#include "engine.hpp"
#include <chrono>
#include <unistd.h>
#include <signal.h>
#include <fcntl.h>
#include <unistd.h>

extern "C" void __sanitizer_set_death_callback(void (*)(void)) __attribute__((weak));

#ifndef VERIF_HAVE_INIT
void harness_init(const std::string &) {}
#endif

namespace vf {

static std::vector<uint8_t> g_cur;   // buffer of the case being run (for the death callback)
static std::string g_crash_path;     // where the death callback writes it
static std::string g_mode, g_kf_csv;

static std::string to_hex(const std::vector<uint8_t> &b)
{
	static const char *hx = "0123456789abcdef";
	std::string o;
	o.reserve(b.size() * 2);
	for (uint8_t x : b)
	{
		o += hx[x >> 4];
		o += hx[x & 15];
	}
	return o;
}
static void write_case_file(const std::string &path, const std::vector<uint8_t> &buf, const std::string &mode,
                            const std::string &kf, const std::string &why)
{
	FILE *f = fopen(path.c_str(), "w");
	if (!f)
		return;
	fprintf(f, "VERIFCASE v1\nharness: %s\nmode: %s\nkf: %s\nwhy: %s\n", HARNESS_ID, mode.c_str(), kf.c_str(), why.c_str());
	// process-level inputs a replay must reproduce (e.g. the pinned hash seed)
	if (getenv("VERIF_HASHSEED"))
		fprintf(f, "env: VERIF_HASHSEED=%s\n", getenv("VERIF_HASHSEED"));
	fprintf(f, "hex: %s\n", to_hex(buf).c_str());
	fclose(f);
}
static void death_cb()
{
	if (!g_crash_path.empty())
	{
		// async-signal-unsafe but the process is dying anyway
		write_case_file(g_crash_path, g_cur, g_mode, g_kf_csv, "sanitizer/abort");
	}
}
// The same from inside a signal handler in a build without a sanitizer runtime: the crash may have happened inside
// malloc/free with the allocator's lock held, so nothing here may allocate or use stdio - open/write only, the header
// prepared in advance (death_prepare()).
static char g_death_path[1024];
static char g_death_hdr[4096];
static size_t g_death_hdr_len;
static void death_prepare()
{
	snprintf(g_death_path, sizeof g_death_path, "%s", g_crash_path.c_str());
	int n = snprintf(g_death_hdr, sizeof g_death_hdr, "VERIFCASE v1\nharness: %s\nmode: %s\nkf: %s\nwhy: signal\n%s%s%shex: ", HARNESS_ID, g_mode.c_str(), g_kf_csv.c_str(),
	                 getenv("VERIF_HASHSEED") ? "env: VERIF_HASHSEED=" : "", getenv("VERIF_HASHSEED") ? getenv("VERIF_HASHSEED") : "", getenv("VERIF_HASHSEED") ? "\n" : "");
	g_death_hdr_len = n < 0 ? 0 : (size_t)n < sizeof g_death_hdr ? (size_t)n : sizeof g_death_hdr - 1;
}
static void death_write_raw()
{
	if (!g_death_path[0])
		return;
	int fd = open(g_death_path, O_WRONLY | O_CREAT | O_TRUNC, 0644);
	if (fd < 0)
		return;
	ssize_t w = write(fd, g_death_hdr, g_death_hdr_len);
	static const char hx[] = "0123456789abcdef";
	char chunk[1024];
	size_t n = g_cur.size(), at = 0;
	const uint8_t *d = g_cur.data();
	while (at < n)
	{
		size_t k = 0;
		for (; at < n && k + 2 <= sizeof chunk; at++)
		{
			chunk[k++] = hx[d[at] >> 4];
			chunk[k++] = hx[d[at] & 15];
		}
		w = write(fd, chunk, k);
	}
	w = write(fd, "\n", 1);
	(void)w;
	close(fd);
}
static void abort_handler(int sig)
{
	if (sig == SIGABRT)
		death_cb();
	else
		death_write_raw();
	signal(sig, SIG_DFL);
	raise(sig);
}

static bool read_case_file(const std::string &path, std::vector<uint8_t> &buf, std::string &mode)
{
	FILE *f = fopen(path.c_str(), "rb");
	if (!f)
		return false;
	std::string all;
	char tmp[65536];
	size_t n;
	while ((n = fread(tmp, 1, sizeof tmp, f)) > 0)
		all.append(tmp, n);
	fclose(f);
	buf.clear();
	if (all.compare(0, 12, "VERIFCASE v1") != 0)
	{
		buf.assign(all.begin(), all.end()); // raw libFuzzer artifact
		return true;
	}
	size_t p = 0;
	while (p < all.size())
	{
		size_t e = all.find('\n', p);
		if (e == std::string::npos)
			e = all.size();
		std::string line = all.substr(p, e - p);
		p = e + 1;
		if (line.compare(0, 6, "mode: ") == 0)
			mode = line.substr(6);
		else if (line.compare(0, 5, "hex: ") == 0)
		{
			for (size_t i = 5; i + 1 < line.size(); i += 2)
			{
				auto hv = [](char ch) { return ch <= '9' ? ch - '0' : (ch | 32) - 'a' + 10; };
				buf.push_back((uint8_t)(hv(line[i]) * 16 + hv(line[i + 1])));
			}
		}
	}
	return true;
}

struct RunResult {
	bool failed = false;
	std::string tag, msg, desc;
	size_t consumed = 0;
	std::vector<Span> spans;
	bool nontrivial = false;
};

static bool mode_is_enum(const std::string &mode)
{
	for (auto &m : harness_modes())
		if (mode == m.name)
			return m.enum_size > 0;
	return false;
}

static RunResult run_once(const std::vector<uint8_t> &buf, Rng *rng, size_t max_bytes, const std::string &mode,
                          const std::set<std::string> &kf, Stats *st, bool counting, bool verbose, bool is_enum,
                          std::vector<uint8_t> *out_buf = nullptr)
{
	RunResult r;
	Choices c;
	g_cur = buf;
	c.bp = &g_cur;
	c.rng = rng;
	c.max_bytes = max_bytes;
	Ctx ctx;
	ctx.mode = mode;
	ctx.kf_on = kf;
	ctx.st = st;
	ctx.counting = counting;
	ctx.verbose = verbose;
	if (!is_enum)
		c.init_size();
	try
	{
		run_case(c, ctx);
	}
	catch (CaseFail &f)
	{
		r.failed = true;
		r.tag = f.tag;
		r.msg = f.msg;
	}
	r.desc = ctx.desc;
	r.consumed = c.pos;
	r.spans = c.spans;
	r.nontrivial = ctx.counted_nt;
	if (out_buf)
		*out_buf = g_cur;
	return r;
}

// ------------------------------------------------------------ shrinking
struct Shrinker {
	std::string mode, tag;
	std::set<std::string> kf;
	bool is_enum;
	int budget = 4000;
	std::chrono::steady_clock::time_point deadline;
	std::vector<uint8_t> best;
	RunResult best_r;

	bool try_buf(const std::vector<uint8_t> &cand)
	{
		if (budget <= 0 || std::chrono::steady_clock::now() > deadline)
			return false;
		budget--;
		RunResult r = run_once(cand, nullptr, 0, mode, kf, nullptr, false, false, is_enum);
		if (r.failed && r.tag == tag)
		{
			best = cand;
			if (r.consumed < best.size())
				best.resize(r.consumed);
			best_r = r;
			return true;
		}
		return false;
	}
	void run()
	{
		if (is_enum)
			return;
		bool progress = true;
		while (progress && budget > 0)
		{
			progress = false;
			// 1. delete spans, largest first
			bool again = true;
			while (again && budget > 0)
			{
				again = false;
				std::vector<Span> sp = best_r.spans;
				std::sort(sp.begin(), sp.end(),
				          [](const Span &a, const Span &b) { return (a.end - a.start) > (b.end - b.start); });
				for (auto &s : sp)
				{
					if (s.end <= s.start || s.end > best.size() || s.start == 0)
						continue;
					std::vector<uint8_t> cand(best.begin(), best.begin() + s.start);
					cand.insert(cand.end(), best.begin() + s.end, best.end());
					if (try_buf(cand))
					{
						again = progress = true;
						break;
					}
				}
			}
			// 2. delete blocks
			for (size_t bs : {16, 8, 4, 2, 1})
			{
				for (size_t off = best.size(); off-- > 1;)
				{
					if (off + bs > best.size())
						continue;
					std::vector<uint8_t> cand(best.begin(), best.begin() + off);
					cand.insert(cand.end(), best.begin() + off + bs, best.end());
					if (try_buf(cand))
						progress = true;
					if (budget <= 0)
						break;
				}
			}
			// 3. zero blocks, 4. minimise bytes
			for (size_t off = 0; off < best.size() && budget > 0; off++)
			{
				if (best[off] == 0)
					continue;
				std::vector<uint8_t> cand = best;
				cand[off] = 0;
				if (try_buf(cand))
				{
					progress = true;
					continue;
				}
				uint8_t lo = 0, hi = best[off]; // lo fails to reproduce, hi reproduces
				while (hi - lo > 1 && budget > 0)
				{
					uint8_t mid = (uint8_t)(lo + (hi - lo) / 2);
					cand = best;
					if (off >= cand.size())
						break;
					cand[off] = mid;
					if (try_buf(cand))
					{
						hi = mid;
						progress = true;
					}
					else
						lo = mid;
				}
			}
		}
	}
};

static void json_kv(std::string &o, const char *k, uint64_t v)
{
	o += "\"";
	o += k;
	o += "\":" + std::to_string(v) + ",";
}
static void json_map(std::string &o, const char *k, const std::map<std::string, uint64_t> &m)
{
	o += "\"";
	o += k;
	o += "\":{";
	bool first = true;
	for (auto &kv : m)
	{
		if (!first)
			o += ",";
		first = false;
		o += "\"" + json_escape(kv.first) + "\":" + std::to_string(kv.second);
	}
	o += "},";
}

static int driver_main(int argc, char **argv)
{
	std::string mode, out = "", replay, kfcsv;
	uint64_t seed = 1, cases = 1000, worker = 0, shard = 0, nshards = 1;
	size_t maxbytes = 8192;
	double timecap = 0;
	bool verbose = false, list = false;
	for (int i = 1; i < argc; i++)
	{
		std::string a = argv[i];
		auto nxt = [&]() -> std::string { return i + 1 < argc ? argv[++i] : ""; };
		if (a == "--mode")
			mode = nxt();
		else if (a == "--out")
			out = nxt();
		else if (a == "--replay")
			replay = nxt();
		else if (a == "--kf")
			kfcsv = nxt();
		else if (a == "--seed")
			seed = strtoull(nxt().c_str(), 0, 10);
		else if (a == "--cases")
			cases = strtoull(nxt().c_str(), 0, 10);
		else if (a == "--worker")
			worker = strtoull(nxt().c_str(), 0, 10);
		else if (a == "--shard")
		{
			std::string s = nxt();
			sscanf(s.c_str(), "%lu/%lu", &shard, &nshards);
		}
		else if (a == "--maxbytes")
			maxbytes = strtoull(nxt().c_str(), 0, 10);
		else if (a == "--timecap")
			timecap = atof(nxt().c_str());
		else if (a == "--verbose")
			verbose = true;
		else if (a == "--list-modes")
			list = true;
		else
		{
			fprintf(stderr, "unknown arg %s\n", a.c_str());
			return 2;
		}
	}
	auto modes = harness_modes();
	if (list)
	{
		for (auto &m : modes)
			printf("%s\t%llu\t%s\n", m.name, (unsigned long long)m.enum_size, m.what);
		return 0;
	}
	std::set<std::string> kf;
	{
		size_t p = 0;
		while (p < kfcsv.size())
		{
			size_t e = kfcsv.find(',', p);
			if (e == std::string::npos)
				e = kfcsv.size();
			if (e > p)
				kf.insert(kfcsv.substr(p, e - p));
			p = e + 1;
		}
	}
	g_kf_csv = kfcsv;
	if (__sanitizer_set_death_callback)
		__sanitizer_set_death_callback(death_cb);
	else
	{
		// no sanitizer runtime in this build: a wild access is only a signal. It must still leave the case file
		// behind, or the driver could not tell a crash in the library from a worker that was killed.
		static char altstack[1 << 16];
		stack_t ss;
		ss.ss_sp = altstack;
		ss.ss_size = sizeof altstack;
		ss.ss_flags = 0;
		sigaltstack(&ss, nullptr);
		struct sigaction sa;
		memset(&sa, 0, sizeof sa);
		sa.sa_handler = abort_handler;
		sa.sa_flags = SA_ONSTACK | SA_RESETHAND;
		for (int sg : {SIGSEGV, SIGBUS, SIGILL, SIGFPE})
			sigaction(sg, &sa, nullptr);
	}
	signal(SIGABRT, abort_handler);

	if (!replay.empty())
	{
		std::vector<uint8_t> buf;
		std::string fmode = mode;
		if (!read_case_file(replay, buf, fmode))
		{
			fprintf(stderr, "cannot read %s\n", replay.c_str());
			return 2;
		}
		if (mode.empty())
			mode = fmode;
		if (mode.empty() && !modes.empty())
			mode = modes[0].name;
		g_mode = mode;
		g_crash_path = out.empty() ? "" : out + ".crash";
		death_prepare();
		harness_init(mode);
		RunResult r = run_once(buf, nullptr, 0, mode, kf, nullptr, false, true, mode_is_enum(mode));
		printf("%s", r.desc.c_str());
		if (r.failed)
		{
			printf("REPLAY-FAIL tag=%s %s\n", r.tag.c_str(), r.msg.c_str());
			return 3;
		}
		printf("REPLAY-PASS\n");
		return 0;
	}

	if (mode.empty() && !modes.empty())
		mode = modes[0].name;
	const ModeInfo *mi = nullptr;
	for (auto &m : modes)
		if (mode == m.name)
			mi = &m;
	if (!mi)
	{
		fprintf(stderr, "unknown mode %s\n", mode.c_str());
		return 2;
	}
	g_mode = mode;
	g_crash_path = out + ".crash";
	death_prepare();
	harness_init(mode);
	bool is_enum = mi->enum_size > 0;
	Stats st;
	uint64_t s0 = seed * 0x9e3779b97f4a7c15ULL + worker * 0xd1342543de82ef95ULL + hash_str(std::string(HARNESS_ID) + mode);
	Rng rng(s0);
	auto t0 = std::chrono::steady_clock::now();
	bool timecap_hit = false;
	RunResult fail_r;
	std::vector<uint8_t> fail_buf;
	uint64_t total = is_enum ? mi->enum_size : cases;
	uint64_t next_sample = is_enum ? shard : total / 10, sample_tries = 0;
	uint64_t start = is_enum ? shard : 0, step = is_enum ? nshards : 1;
	for (uint64_t i = start; i < total; i += step)
	{
		if (timecap > 0 && (i & 63) == 0)
		{
			double el = std::chrono::duration<double>(std::chrono::steady_clock::now() - t0).count();
			if (el > timecap)
			{
				timecap_hit = true;
				break;
			}
		}
		std::vector<uint8_t> buf, used;
		bool vb = verbose || (st.samples.size() < 3 && i >= next_sample);
		RunResult r;
		if (is_enum)
		{
			buf.resize(8);
			for (int k = 0; k < 8; k++)
				buf[k] = (uint8_t)(i >> (56 - 8 * k));
			r = run_once(buf, nullptr, 0, mode, kf, &st, true, vb, true, &used);
		}
		else
		{
			unsigned ramp = 1 + (unsigned)(99 * i / (total ? total : 1));
			unsigned sz = (rng.next() & 1) ? ramp : 1 + (unsigned)(rng.next() % ramp);
			buf.push_back((uint8_t)(sz - 1));
			size_t mb = 32 + maxbytes * sz / 100;
			r = run_once(buf, &rng, mb, mode, kf, &st, true, vb, false, &used);
		}
		st.cases++;
		if (r.failed)
		{
			fail_r = r;
			fail_buf = used;
			if (r.consumed < fail_buf.size())
				fail_buf.resize(r.consumed);
			break;
		}
		if (vb && !verbose)
		{
			sample_tries++;
			if ((r.nontrivial || sample_tries > 50) && !r.desc.empty())
			{
				std::string d = r.desc;
				if (d.size() > 1500)
					d = d.substr(0, 1500) + "...";
				st.samples.push_back(d);
				next_sample = i + (total * 4 / 10 / (step ? step : 1)) * step + step;
				sample_tries = 0;
			}
		}
		if (verbose)
			printf("%s---\n", r.desc.c_str());
	}
	std::string fail_json = "null";
	int rc = 0;
	if (fail_r.failed)
	{
		rc = 3;
		Shrinker sh;
		sh.mode = mode;
		sh.tag = fail_r.tag;
		sh.kf = kf;
		sh.is_enum = is_enum;
		sh.best = fail_buf;
		sh.best_r = fail_r;
		sh.deadline = std::chrono::steady_clock::now() + std::chrono::seconds(90);
		// make sure it reproduces from the recorded buffer at all
		bool repro = sh.try_buf(fail_buf);
		if (repro)
			sh.run();
		RunResult fin = run_once(sh.best, nullptr, 0, mode, kf, nullptr, false, true, is_enum);
		std::string msg = fin.failed ? fin.msg : fail_r.msg;
		std::string desc = fin.failed ? fin.desc : fail_r.desc;
		std::string casefile = out + ".fail.case";
		write_case_file(casefile, sh.best, mode, kfcsv, fail_r.tag + ": " + msg);
		// the case as it was generated, before shrinking: for failures that depend on a schedule a smaller case may
		// fail less reliably than the one that was found, and the driver falls back to this one
		write_case_file(out + ".fail.orig.case", fail_buf, mode, kfcsv, fail_r.tag + ": " + fail_r.msg);
		fail_json = "{\"tag\":\"" + json_escape(fail_r.tag) + "\",\"msg\":\"" + json_escape(msg) + "\",\"desc\":\"" +
		            json_escape(desc.substr(0, 6000)) + "\",\"replay\":\"" + json_escape(casefile) +
		            "\",\"reproduced\":" + (repro ? "true" : "false") + "}";
	}
	double wall = std::chrono::duration<double>(std::chrono::steady_clock::now() - t0).count();
	std::string o = "{";
	o += "\"harness\":\"" + std::string(HARNESS_ID) + "\",\"mode\":\"" + mode + "\",";
	json_kv(o, "cases", st.cases);
	json_kv(o, "nontrivial", st.nontrivial);
	json_kv(o, "distinct_local", st.distinct.size());
	json_kv(o, "enum", is_enum ? 1 : 0);
	json_kv(o, "enum_size", mi->enum_size);
	json_kv(o, "timecap_hit", timecap_hit ? 1 : 0);
	json_map(o, "labels", st.labels);
	json_map(o, "excluded", st.excluded);
	o += "\"samples\":[";
	for (size_t i = 0; i < st.samples.size(); i++)
		o += std::string(i ? "," : "") + "\"" + json_escape(st.samples[i]) + "\"";
	o += "],";
	char wb[64];
	snprintf(wb, sizeof wb, "\"wall_s\":%.3f,", wall);
	o += wb;
	o += "\"failure\":" + fail_json + "}";
	if (!out.empty())
	{
		FILE *f = fopen(out.c_str(), "w");
		if (f)
		{
			fputs(o.c_str(), f);
			fputc('\n', f);
			fclose(f);
		}
		f = fopen((out + ".hashes").c_str(), "wb");
		if (f)
		{
			std::vector<uint64_t> hv(st.distinct.begin(), st.distinct.end());
			if (!hv.empty())
				fwrite(hv.data(), 8, hv.size(), f);
			fclose(f);
		}
	}
	else
		printf("%s\n", o.c_str());
	fflush(stdout);
	g_crash_path.clear(); // nothing after this point belongs to a case
	g_death_path[0] = 0;
	// skip atexit leak checks of a deliberately abandoned failing case
	if (rc != 0)
		_exit(rc);
	return rc;
}

} // namespace vf

#ifdef VERIF_FUZZ
namespace vf {
static Stats g_fst;
static std::set<std::string> g_fkf;
static void fuzz_dump_stats()
{
	const char *p = getenv("VERIF_FUZZ_STATS");
	if (!p)
		return;
	std::string o = "{";
	json_kv(o, "cases", g_fst.cases);
	json_kv(o, "nontrivial", g_fst.nontrivial);
	json_kv(o, "distinct_local", g_fst.distinct.size());
	json_map(o, "labels", g_fst.labels);
	json_map(o, "excluded", g_fst.excluded);
	o += "\"x\":0}";
	FILE *f = fopen(p, "w");
	if (f)
	{
		fputs(o.c_str(), f);
		fclose(f);
	}
	f = fopen((std::string(p) + ".hashes").c_str(), "wb");
	if (f)
	{
		std::vector<uint64_t> hv(g_fst.distinct.begin(), g_fst.distinct.end());
		if (!hv.empty())
			fwrite(hv.data(), 8, hv.size(), f);
		fclose(f);
	}
}
} // namespace vf
extern "C" int LLVMFuzzerInitialize(int *, char ***)
{
	const char *m = getenv("VERIF_MODE");
	vf::g_mode = m ? m : harness_modes()[0].name;
	const char *k = getenv("VERIF_KF");
	std::string kfcsv = k ? k : "";
	size_t p = 0;
	while (p < kfcsv.size())
	{
		size_t e = kfcsv.find(',', p);
		if (e == std::string::npos)
			e = kfcsv.size();
		if (e > p)
			vf::g_fkf.insert(kfcsv.substr(p, e - p));
		p = e + 1;
	}
	vf::g_fst.distinct_cap = 1000000;
	harness_init(vf::g_mode);
	atexit(vf::fuzz_dump_stats);
	return 0;
}
extern "C" int LLVMFuzzerTestOneInput(const uint8_t *data, size_t size)
{
	std::vector<uint8_t> buf(data, data + size);
	vf::RunResult r = vf::run_once(buf, nullptr, 0, vf::g_mode, vf::g_fkf, &vf::g_fst, true, false, false);
	vf::g_fst.cases++;
	if (r.failed)
	{
		vf::RunResult v = vf::run_once(buf, nullptr, 0, vf::g_mode, vf::g_fkf, nullptr, false, true, false);
		fprintf(stderr, "PROPERTY-FAIL harness=%s mode=%s tag=%s %s\n%s\n", HARNESS_ID, vf::g_mode.c_str(),
		        r.tag.c_str(), r.msg.c_str(), v.desc.c_str());
		vf::fuzz_dump_stats();
		__builtin_trap();
	}
	return 0;
}
#else
int main(int argc, char **argv) { return vf::driver_main(argc, argv); }
#endif
