/* Allocation interposer, linked with -Wl,--wrap=malloc,--wrap=calloc,--wrap=realloc,
 * --wrap=strdup,--wrap=free,--wrap=vasprintf,--wrap=newlocale,--wrap=duplocale,--wrap=freelocale.
 * Only json-c's own (C) allocation calls go through here: C++ new/delete in the
 * harnesses do not.  It keeps the set of live blocks obtained through the
 * wrappers (so per-case leak deltas are exact) and can fail the k-th armed call.
 */
#define _GNU_SOURCE
#include <errno.h>
#include <locale.h>
#include <stdarg.h>
#include <stddef.h>
#include <stdint.h>
#include <stdio.h>
#include <stdlib.h>
#include <string.h>

void *__real_malloc(size_t);
void *__real_calloc(size_t, size_t);
void *__real_realloc(void *, size_t);
char *__real_strdup(const char *);
void __real_free(void *);
int __real_vasprintf(char **, const char *, va_list);
locale_t __real_newlocale(int, const char *, locale_t);
locale_t __real_duplocale(locale_t);
void __real_freelocale(locale_t);

/* ---- live set: open addressing, tombstones, storage from __real_malloc ---- */
static uintptr_t *tab;
static size_t tab_cap, tab_used, tab_live;
static long peak_live; /* highest number of simultaneously live blocks since the last verif_alloc_peak_reset() */
#define TOMB ((uintptr_t)1)

static size_t hptr(uintptr_t p) { return (size_t)((p >> 4) * 0x9e3779b97f4a7c15ULL >> 20); }
static void set_grow(void)
{
	size_t ncap = tab_cap ? tab_cap * 2 : 4096, i;
	uintptr_t *nt = (uintptr_t *)__real_calloc(ncap, sizeof(uintptr_t));
	if (!nt)
		abort();
	for (i = 0; i < tab_cap; i++)
		if (tab[i] > TOMB)
		{
			size_t h = hptr(tab[i]) & (ncap - 1);
			while (nt[h])
				h = (h + 1) & (ncap - 1);
			nt[h] = tab[i];
		}
	__real_free(tab);
	tab = nt;
	tab_cap = ncap;
	tab_used = tab_live;
}
static void set_add(void *p)
{
	size_t h;
	if (!p)
		return;
	if ((tab_used + 1) * 2 > tab_cap)
		set_grow();
	h = hptr((uintptr_t)p) & (tab_cap - 1);
	while (tab[h] > TOMB)
		h = (h + 1) & (tab_cap - 1);
	if (tab[h] == 0)
		tab_used++;
	tab[h] = (uintptr_t)p;
	tab_live++;
	if ((long)tab_live > peak_live)
		peak_live = (long)tab_live;
}
static int set_del(void *p)
{
	size_t h;
	if (!p || !tab_cap)
		return 0;
	h = hptr((uintptr_t)p) & (tab_cap - 1);
	while (tab[h])
	{
		if (tab[h] == (uintptr_t)p)
		{
			tab[h] = TOMB;
			tab_live--;
			return 1;
		}
		h = (h + 1) & (tab_cap - 1);
	}
	return 0;
}

/* ---- fault plan ---- */
static int armed;          /* count (and possibly fail) allocation calls */
static long call_no;       /* armed allocation calls seen */
static long fail_at = -1;  /* index of the armed call to fail, -1 none */
static long fail_at2 = -1; /* second fault */
static long faults_fired;
static long locales_live;
static const char *last_site = "";

long verif_alloc_live(void) { return (long)tab_live; }
long verif_alloc_peak(void) { return peak_live; }
void verif_alloc_peak_reset(void) { peak_live = (long)tab_live; }
long verif_locale_live(void) { return locales_live; }
void verif_alloc_arm(long k, long k2)
{
	armed = 1;
	call_no = 0;
	fail_at = k;
	fail_at2 = k2;
	faults_fired = 0;
	last_site = "";
}
long verif_alloc_disarm(void)
{
	armed = 0;
	fail_at = fail_at2 = -1;
	return call_no;
}
long verif_alloc_faults_fired(void) { return faults_fired; }
const char *verif_alloc_fault_site(void) { return last_site; }

static int should_fail(const char *site)
{
	long n;
	if (!armed)
		return 0;
	n = call_no++;
	if (n == fail_at || n == fail_at2)
	{
		faults_fired++;
		last_site = site;
		errno = ENOMEM;
		return 1;
	}
	return 0;
}

void *__wrap_malloc(size_t n)
{
	void *p;
	if (should_fail("malloc"))
		return NULL;
	p = __real_malloc(n);
	set_add(p);
	return p;
}
void *__wrap_calloc(size_t a, size_t b)
{
	void *p;
	if (should_fail("calloc"))
		return NULL;
	p = __real_calloc(a, b);
	set_add(p);
	return p;
}
void *__wrap_realloc(void *o, size_t n)
{
	void *p;
	if (should_fail("realloc"))
		return NULL;
	{
		int had = set_del(o);
		p = __real_realloc(o, n);
		if (p)
			set_add(p);
		else if (had && n != 0)
			set_add(o);
	}
	return p;
}
char *__wrap_strdup(const char *s)
{
	char *p;
	if (should_fail("strdup"))
		return NULL;
	p = __real_strdup(s);
	set_add(p);
	return p;
}
void __wrap_free(void *p)
{
	set_del(p);
	__real_free(p);
}
int __wrap_vasprintf(char **out, const char *fmt, va_list ap)
{
	int r;
	if (should_fail("vasprintf"))
	{
		*out = NULL;
		return -1;
	}
	r = __real_vasprintf(out, fmt, ap);
	if (r >= 0)
		set_add(*out);
	return r;
}
locale_t __wrap_newlocale(int mask, const char *name, locale_t base)
{
	locale_t l;
	if (should_fail("newlocale"))
		return (locale_t)0;
	l = __real_newlocale(mask, name, base);
	/* newlocale(…, base) consumes base on success */
	if (l && !base)
		locales_live++;
	return l;
}
locale_t __wrap_duplocale(locale_t l)
{
	locale_t r;
	if (should_fail("duplocale"))
		return (locale_t)0;
	r = __real_duplocale(l);
	if (r)
		locales_live++;
	return r;
}
void __wrap_freelocale(locale_t l)
{
	if (l)
		locales_live--;
	__real_freelocale(l);
}
