// Choice-sequence property-testing engine shared by the random ("pbt") driver and
// libFuzzer.  One harness TU defines HARNESS_ID, harness_modes() and run_case();
// engine_main.hpp (included last by the harness) supplies main() or
// LLVMFuzzerTestOneInput().  See DESIGN.md section 2.
#pragma once
#include <cstdint>
#include <cstdio>
#include <cstdlib>
#include <cstring>
#include <string>
#include <vector>
#include <map>
#include <set>
#include <unordered_set>
#include <algorithm>
#include <functional>

namespace vf {

// ---------------------------------------------------------------- PRNG
struct Rng {
	uint64_t s[4];
	static uint64_t splitmix(uint64_t &x)
	{
		uint64_t z = (x += 0x9e3779b97f4a7c15ULL);
		z = (z ^ (z >> 30)) * 0xbf58476d1ce4e5b9ULL;
		z = (z ^ (z >> 27)) * 0x94d049bb133111ebULL;
		return z ^ (z >> 31);
	}
	explicit Rng(uint64_t seed)
	{
		for (auto &v : s)
			v = splitmix(seed);
	}
	static uint64_t rotl(uint64_t x, int k) { return (x << k) | (x >> (64 - k)); }
	uint64_t next()
	{
		uint64_t r = rotl(s[1] * 5, 7) * 9, t = s[1] << 17;
		s[2] ^= s[0];
		s[3] ^= s[1];
		s[1] ^= s[2];
		s[0] ^= s[3];
		s[2] ^= t;
		s[3] = rotl(s[3], 45);
		return r;
	}
};

inline uint64_t fnv1a(const void *p, size_t n, uint64_t h = 0xcbf29ce484222325ULL)
{
	const unsigned char *b = (const unsigned char *)p;
	for (size_t i = 0; i < n; i++)
		h = (h ^ b[i]) * 0x100000001b3ULL;
	return h;
}
inline uint64_t hash_str(const std::string &s, uint64_t h = 0xcbf29ce484222325ULL)
{
	return fnv1a(s.data(), s.size(), h);
}
inline uint64_t hash_u64(uint64_t v, uint64_t h = 0xcbf29ce484222325ULL) { return fnv1a(&v, 8, h); }

// ---------------------------------------------------------------- choice stream
struct Span {
	size_t start, end;
	int depth;
};

struct Choices {
	std::vector<uint8_t> own;
	std::vector<uint8_t> *bp = &own; // the driver points this at a global so a dying process can dump it
	size_t pos = 0;
	Rng *rng = nullptr;      // non-null: generation mode, buffer grows on demand
	size_t max_bytes = 1 << 16; // generation budget; beyond it draws are 0
	bool overrun = false;    // a draw was served past the end (value 0)
	std::vector<Span> spans;
	std::vector<size_t> open;
	int size = 50;           // 1..100, first byte of the buffer (see init_size)

	uint8_t byte()
	{
		std::vector<uint8_t> &buf = *bp;
		if (pos < buf.size())
			return buf[pos++];
		if (rng && buf.size() < max_bytes)
		{
			buf.push_back((uint8_t)(rng->next() >> 32));
			return buf[pos++];
		}
		overrun = true;
		return 0;
	}
	// first draw of every case: the size parameter
	void init_size()
	{
		size = 1 + byte() % 100;
	}
	uint64_t bits(int nbytes)
	{
		uint64_t v = 0;
		for (int i = 0; i < nbytes; i++)
			v = (v << 8) | byte();
		return v;
	}
	// uniform-ish integer in [lo,hi]; all-zero bytes give lo
	uint64_t range(uint64_t lo, uint64_t hi)
	{
		if (hi <= lo)
			return lo;
		uint64_t span = hi - lo;
		int nb = span < 0x100 ? 1 : span < 0x10000 ? 2 : span < 0x100000000ULL ? 4 : 8;
		uint64_t raw = bits(nb);
		if (span == UINT64_MAX)
			return lo + raw;
		return lo + raw % (span + 1);
	}
	int irange(int lo, int hi) { return (int)((int64_t)lo + (int64_t)range(0, (uint64_t)((int64_t)hi - lo))); }
	// length in [0,maxlen] scaled by the size parameter (small cases first)
	size_t len(size_t maxlen)
	{
		size_t m = maxlen * (size_t)size / 100;
		if (m < 1 && maxlen >= 1)
			m = 1;
		return (size_t)range(0, m);
	}
	// true with probability pct/100; zero byte gives false
	bool coin(unsigned pct)
	{
		if (pct == 0)
			return false;
		return range(0, 99) >= 100 - pct;
	}
	// weighted pick; zero bytes give alternative 0
	size_t pick(std::initializer_list<unsigned> w)
	{
		unsigned tot = 0;
		for (unsigned x : w)
			tot += x;
		uint64_t r = range(0, tot - 1);
		size_t i = 0;
		for (unsigned x : w)
		{
			if (r < x)
				return i;
			r -= x;
			i++;
		}
		return 0;
	}
	size_t pickn(size_t n) { return n <= 1 ? 0 : (size_t)range(0, n - 1); }
	std::string bytes(size_t n)
	{
		std::string s(n, '\0');
		for (size_t i = 0; i < n; i++)
			s[i] = (char)byte();
		return s;
	}
	void begin()
	{
		open.push_back(spans.size());
		spans.push_back({pos, pos, (int)open.size()});
	}
	void end()
	{
		if (open.empty())
			return;
		spans[open.back()].end = pos;
		open.pop_back();
	}
};
struct SpanGuard {
	Choices &c;
	explicit SpanGuard(Choices &cc) : c(cc) { c.begin(); }
	~SpanGuard() { c.end(); }
};

// ---------------------------------------------------------------- case context
struct CaseFail {
	std::string tag, msg;
};

struct Stats {
	uint64_t cases = 0, nontrivial = 0;
	std::map<std::string, uint64_t> labels, excluded;
	std::unordered_set<uint64_t> distinct;
	size_t distinct_cap = 3000000;
	std::vector<std::string> samples;
};

struct Ctx {
	std::string mode;
	std::set<std::string> kf_on; // known-finding exclusions in force
	bool verbose = false;        // harness should fill desc
	std::string desc;            // human-readable decoded case
	Stats *st = nullptr;
	bool counted_nt = false;
	bool counting = true; // false while shrinking / replaying

	void label(const char *l)
	{
		if (counting && st)
			st->labels[l]++;
	}
	void nontrivial(uint64_t h)
	{
		if (!counting || !st || counted_nt)
			return;
		counted_nt = true;
		st->nontrivial++;
		if (st->distinct.size() < st->distinct_cap)
			st->distinct.insert(h);
	}
	bool kf(const char *key) const { return kf_on.count(key) != 0; }
	void excluded(const char *key)
	{
		if (counting && st)
			st->excluded[key]++;
	}
	void note(const std::string &s)
	{
		if (verbose)
		{
			desc += s;
			desc += '\n';
		}
	}
	[[noreturn]] void fail(const std::string &tag, const std::string &msg) { throw CaseFail{tag, msg}; }
};
#define VF_CHECK(ctx, cond, tag, msg)   \
	do                              \
	{                               \
		if (!(cond))            \
			(ctx).fail((tag), (msg)); \
	} while (0)

struct ModeInfo {
	const char *name;
	uint64_t enum_size; // 0: random/fuzz mode; >0: exhaustive enumeration of that many items
	const char *what;
};

// printable rendering of arbitrary bytes
inline std::string quote(const std::string &s, size_t maxn = 400)
{
	std::string o = "\"";
	size_t n = 0;
	for (unsigned char ch : s)
	{
		if (n++ >= maxn)
		{
			o += "...(" + std::to_string(s.size()) + " bytes)";
			break;
		}
		if (ch == '"' || ch == '\\')
		{
			o += '\\';
			o += (char)ch;
		}
		else if (ch >= 0x20 && ch < 0x7f)
			o += (char)ch;
		else
		{
			char b[8];
			snprintf(b, sizeof b, "\\x%02x", ch);
			o += b;
		}
	}
	return o + "\"";
}
inline std::string json_escape(const std::string &s)
{
	std::string o;
	for (unsigned char ch : s)
	{
		if (ch == '"' || ch == '\\')
		{
			o += '\\';
			o += (char)ch;
		}
		else if (ch == '\n')
			o += "\\n";
		else if (ch >= 0x20 && ch < 0x7f)
			o += (char)ch;
		else
		{
			char b[8];
			snprintf(b, sizeof b, "\\u%04x", ch);
			o += b;
		}
	}
	return o;
}

} // namespace vf

// ---- what a harness provides
extern const char *HARNESS_ID;
std::vector<vf::ModeInfo> harness_modes();
void run_case(vf::Choices &c, vf::Ctx &ctx);
// optional per-process initialisation (locale, seeds ...) – weak default in engine_main.hpp
void harness_init(const std::string &mode);
