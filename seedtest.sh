#!/bin/bash
# seedtest.sh <property> <patch> [extra check.py args] : apply a seeded change to /repo, run the check, undo it.
set -u
P=$1; PATCH=$2; shift 2
cd /repo || exit 9
if ! git diff --quiet; then echo "repo dirty"; exit 9; fi
git apply "$PATCH" || { echo "patch does not apply"; exit 9; }
cd /verif
python3 check.py "$P" --no-evidence "$@" 2>&1 | grep -E "^(VIOLATION|INCONCLUSIVE|SUMMARY|CHECK-NOT-RUN|KNOWN)" | cut -c1-400
rc=${PIPESTATUS[0]}
git -C /repo checkout -- .
echo "exit=$rc"
