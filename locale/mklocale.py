#!/usr/bin/env python3
"""Builds a synthetic comma-decimal locale xx_XX (ASCII charmap) with localedef, offline.
usage: mklocale.py <outdir>   ->  <outdir>/xx_XX/LC_*  (select with LOCPATH=<outdir>, setlocale(LC_ALL,"xx_XX"))"""
import os, subprocess, sys, tempfile, shutil
out = sys.argv[1]
tmp = tempfile.mkdtemp(prefix="mkloc", dir=out)
names = {0x20: "space"}
with open(os.path.join(tmp, "ASCII"), "w") as f:
    f.write("<code_set_name> ASCII\n<comment_char> %\n<escape_char> /\n<mb_cur_min> 1\n<mb_cur_max> 1\nCHARMAP\n")
    for i in range(128):
        f.write("<U%04X> /x%02x\n" % (i, i))
    f.write("END CHARMAP\n")
def ul(a, b):
    return ";".join("<U%04X>" % i for i in range(a, b + 1))
src = """comment_char %%
escape_char /
LC_IDENTIFICATION
title "synthetic comma-decimal locale for verification"
source ""
address ""
contact ""
email ""
tel ""
fax ""
language ""
territory ""
revision "1.0"
date "2026-01-01"
category "i18n:2012";LC_IDENTIFICATION
category "i18n:2012";LC_CTYPE
category "i18n:2012";LC_COLLATE
category "i18n:2012";LC_TIME
category "i18n:2012";LC_NUMERIC
category "i18n:2012";LC_MONETARY
category "i18n:2012";LC_MESSAGES
category "i18n:2012";LC_PAPER
category "i18n:2012";LC_NAME
category "i18n:2012";LC_ADDRESS
category "i18n:2012";LC_TELEPHONE
category "i18n:2012";LC_MEASUREMENT
END LC_IDENTIFICATION
LC_CTYPE
upper %(upper)s
lower %(lower)s
alpha %(upper)s;%(lower)s
digit %(digit)s
space <U0020>;<U0009>;<U000A>;<U000B>;<U000C>;<U000D>
cntrl %(cntrl)s;<U007F>
punct %(p1)s;%(p2)s;%(p3)s;%(p4)s
graph %(graph)s
print %(print)s
xdigit %(digit)s;%(AF)s;%(af)s
blank <U0020>;<U0009>
toupper %(toup)s
tolower %(tolo)s
END LC_CTYPE
LC_COLLATE
order_start forward
UNDEFINED
order_end
END LC_COLLATE
LC_NUMERIC
decimal_point "<U002C>"
thousands_sep "<U002E>"
grouping 3;3
END LC_NUMERIC
LC_MONETARY
int_curr_symbol "XXX "
currency_symbol "X"
mon_decimal_point "<U002C>"
mon_thousands_sep "<U002E>"
mon_grouping 3;3
positive_sign ""
negative_sign "-"
int_frac_digits 2
frac_digits 2
p_cs_precedes 1
p_sep_by_space 0
n_cs_precedes 1
n_sep_by_space 0
p_sign_posn 1
n_sign_posn 1
END LC_MONETARY
LC_TIME
abday "S";"M";"T";"W";"T";"F";"S"
day "S";"M";"T";"W";"T";"F";"S"
abmon "1";"2";"3";"4";"5";"6";"7";"8";"9";"10";"11";"12"
mon "1";"2";"3";"4";"5";"6";"7";"8";"9";"10";"11";"12"
d_t_fmt "%%a"
d_fmt "%%d"
t_fmt "%%T"
am_pm "AM";"PM"
t_fmt_ampm ""
END LC_TIME
LC_MESSAGES
yesexpr "^[yY]"
noexpr "^[nN]"
END LC_MESSAGES
LC_PAPER
height 297
width 210
END LC_PAPER
LC_NAME
name_fmt "%%g"
END LC_NAME
LC_ADDRESS
postal_fmt "%%a"
END LC_ADDRESS
LC_TELEPHONE
tel_int_fmt "%%a"
END LC_TELEPHONE
LC_MEASUREMENT
measurement 1
END LC_MEASUREMENT
""" % dict(upper=ul(0x41, 0x5A), lower=ul(0x61, 0x7A), digit=ul(0x30, 0x39), cntrl=ul(0, 0x1F),
           p1=ul(0x21, 0x2F), p2=ul(0x3A, 0x40), p3=ul(0x5B, 0x60), p4=ul(0x7B, 0x7E),
           graph=ul(0x21, 0x7E), print=ul(0x20, 0x7E), AF=ul(0x41, 0x46), af=ul(0x61, 0x66),
           toup=";".join("(<U%04X>,<U%04X>)" % (i, i - 32) for i in range(0x61, 0x7B)),
           tolo=";".join("(<U%04X>,<U%04X>)" % (i, i + 32) for i in range(0x41, 0x5B)))
open(os.path.join(tmp, "comma.src"), "w").write(src)
r = subprocess.run(["localedef", "-c", "-f", os.path.join(tmp, "ASCII"), "-i", os.path.join(tmp, "comma.src"), os.path.join(out, "xx_XX")],
                   stdout=subprocess.PIPE, stderr=subprocess.STDOUT, text=True)
shutil.rmtree(tmp, ignore_errors=True)
ok = os.path.exists(os.path.join(out, "xx_XX", "LC_NUMERIC"))
if not ok:
    print(r.stdout[-3000:])
    sys.exit(1)
print("locale ok")
