# Per-property configuration for check.py: which harness, which modes per tier, evidence texts.
# step keys: mode, cases (random modes), workers, enum (exhaustive mode; size for the record),
#            fuzz (libFuzzer campaign: secs, jobs, max_len, dict), config (library build), maxbytes.
PROPS = {}

PROPS["C19"] = dict(
    harness="C19_printbuf.cpp", level="exploration",
    technique="stateful model-based property testing (byte-array model) + exhaustive small scopes + libFuzzer on the op decoder, ASan/UBSan",
    level_text="generated operation histories compared step by step with a byte-array model under ASan/UBSan, plus complete "
               "enumeration of sprintbuf lengths and memset edge positions; held on N cases, never a proof",
    level_note="trusts clang ASan/UBSan to expose out-of-bounds writes; sizes needing >128 KiB of real data only on the refusal side",
    rule="random histories of <=40 operations (memappend, memappend_fast, memset incl. offset -1 / beyond bpos / ending at "
         "capacity, sprintbuf of 0..5000 bytes, reset, must-refuse sizes) on one printbuf, compared with a byte-array model "
         "after every step under ASan+UBSan; non-trivial = the buffer grew at least once AND the history has a memset gap, a "
         ">=128-byte sprintbuf, a fill ending exactly at capacity or a refused request; distinct by hash of the operation list. "
         "Exhaustive sub-spaces: every sprintbuf output length 0..1499 at 4 fill levels; every (fill 0..39, offset -1..48, len 0..99) memset.",
    quick=[dict(mode="ops", cases=120000, workers=4),
           dict(mode="sprintf_len", enum=True, size=6000, workers=2),
           dict(mode="memset_edges", enum=True, size=200000, workers=4)],
    thorough=[dict(mode="ops", cases=8000000, workers=16),
              dict(mode="sprintf_len", enum=True, size=6000, workers=4),
              dict(mode="memset_edges", enum=True, size=200000, workers=8),
              dict(mode="ops", fuzz=True, secs=240, jobs=8, max_len=1024)],
    min_labels=dict(quick=dict(grew=5000, memset_gap=2000, sprintbuf_ge128=2000, refused=2000, memset_ends_at_capacity=300)),
    assumptions=["sizes whose honest execution needs more than ~64 KiB of source data are generated only in the must-be-refused region",
                 "the growth policy itself is not pinned, only bounds/content/NUL"],
)
