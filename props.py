# Per-property configuration for check.py: which harness, which modes per tier, evidence texts.
# step keys: mode, cases (random modes), workers, enum (exhaustive mode; size for the record),
#            fuzz (libFuzzer campaign: secs, jobs, max_len, dict), config (library build), maxbytes.
PROPS = {}

PROPS["C19"] = dict(
    harness="C19_printbuf.cpp", level="exploration",
    technique="stateful model-based property testing (byte-array model) + exhaustive small scopes + libFuzzer on the op decoder, ASan/UBSan",
    level_text="generated operation histories compared step by step with a byte-array model under ASan/UBSan, plus complete "
               "enumeration of sprintbuf lengths and memset edge positions; held on N cases, never a proof",
    level_note="trusts clang ASan/UBSan to expose out-of-bounds writes; sizes needing >128 KiB of real data only on the refusal side",
    rule="random histories of <=40 operations (memappend, memappend_fast, memset incl. offset -1 / beyond bpos / ending at "
         "capacity, sprintbuf of 0..5000 bytes, reset, must-refuse sizes) on one printbuf, compared with a byte-array model "
         "after every step under ASan+UBSan; non-trivial = the buffer grew at least once AND the history has a memset gap, a "
         ">=128-byte sprintbuf, a fill ending exactly at capacity or a refused request; distinct by hash of the operation list. "
         "Exhaustive sub-spaces: every sprintbuf output length 0..1499 at 4 fill levels; every (fill 0..39, offset -1..48, len 0..99) memset; "
         "6 histories on a buffer really grown past 1 GiB (INT_MAX/2, where the growth policy changes).",
    quick=[dict(mode="ops", cases=120000, workers=4),
           dict(mode="sprintf_len", enum=True, size=6000, workers=2),
           dict(mode="memset_edges", enum=True, size=200000, workers=4),
           dict(mode="huge", enum=True, size=6, workers=2)],
    thorough=[dict(mode="ops", cases=8000000, workers=16),
              dict(mode="huge", enum=True, size=6, workers=3),
              dict(mode="sprintf_len", enum=True, size=6000, workers=4),
              dict(mode="memset_edges", enum=True, size=200000, workers=8),
              dict(mode="ops", fuzz=True, secs=240, jobs=8, max_len=1024)],
    min_labels=dict(quick=dict(grew=5000, memset_gap=2000, sprintbuf_ge128=2000, refused=2000, memset_ends_at_capacity=300)),
    assumptions=["sizes whose honest execution needs more than ~64 KiB of source data are generated only in the must-be-refused region, except the 6 'huge' histories (1-1.5 GiB, needs ~4 GiB of free memory per worker)",
                 "the growth policy itself is not pinned, only bounds/content/NUL"],
)

PROPS["C01"] = dict(
    harness="C01_parse.cpp", level="exploration",
    technique="grammar-based text generation vs an independent RFC 8259 reference parser and an exact big-integer decimal->binary64 rounding judge; exhaustive escape/surrogate/scalar/integer-boundary sub-spaces; reference-filtered libFuzzer",
    level_text="generated valid texts (every escape form, surrogate combination, number shape incl. constructed rounding midpoints, "
               "whitespace layout, nesting to the limit) parsed in default and strict mode and compared with a reference parser written "
               "from the RFC; complete enumeration of \\uXXXX units, surrogate pairings, scalar values and 64-bit boundary integers",
    level_note="trusts the reference parser and rounding judge in /verif/model (integer arithmetic only, cross-checked against CPython in selftest); depth <= 31 here (C15 owns other limits)",
    rule="texts from a grammar-directed generator (not serialised trees); non-trivial = contains an escape, non-ASCII, a fraction/exponent, "
         "an integer within 3 of a 2^31/2^32/2^53/2^63/2^64 bound, nesting >= 2 or a duplicate key; distinct by text hash. Enumerations count every item.",
    quick=[dict(mode="grammar", cases=160000, workers=8, maxbytes=3000),
           dict(mode="u16", enum=True, size=65536, workers=4),
           dict(mode="ints", enum=True, size=460, workers=1),
           dict(mode="pairs", enum=True, size=1048576, workers=8),
           dict(mode="scalars", enum=True, size=0x110000, workers=8)],
    thorough=[dict(mode="grammar", cases=12000000, workers=16, maxbytes=6000),
              dict(mode="u16", enum=True, size=65536, workers=4),
              dict(mode="ints", enum=True, size=460, workers=1),
              dict(mode="pairs", enum=True, size=1048576, workers=16),
              dict(mode="scalars", enum=True, size=0x110000, workers=16),
              dict(mode="dblgrid", enum=True, size=4194304, workers=16),
              dict(mode="filter", fuzz=True, secs=300, jobs=8, max_len=512, dict="fuzz/tokener_parse_ex.dict"),
              dict(mode="grammar", fuzz=True, secs=300, jobs=8, max_len=2048)],
    min_labels=dict(quick=dict(escape=20000, surrogate=8000, non_integer=20000, boundary_int=5000, midpoint_number=3000,
                               dup_key=1000, nesting_ge2=10000, nesting_ge20=20, huge_int=500, wide_container=3000, long_string=800)),
    assumptions=["nesting depth <= 31 (default limit; other limits belong to C15)", "texts <= ~6 KiB",
                 "member names containing U+0000 are excluded while the known finding nul-in-member-name is listed"],
)

PROPS["C03"] = dict(
    harness="C03_incremental.cpp", level="exploration",
    technique="differential property testing: chunked feeding on one tokener vs fresh one-shot parse of the bytes fed so far, every 2-split enumerated per text, random k-splits, byte-at-a-time, stream resume; exhaustive token-soup small scopes; libFuzzer",
    level_text="for generated valid, mutated, concatenated and token-soup texts, every 2-chunk split (plus 3-splits of short texts, random k-splits "
               "and byte-at-a-time) under generated flag sets and depth limits is compared call by call (status, error code, value, retained "
               "number text, end offset) with a fresh one-shot parse; all strings over a 30-symbol token alphabet up to length 3 (quick) / 4 "
               "(thorough) and the number alphabet up to length 6 are enumerated completely",
    level_note="the oracle is json-c's own one-shot behaviour (differential), as the property is stated; only calls whose predecessors all returned 'continue' (or that resume a stream at the reported end) are constrained",
    rule="text x flag set x partition; non-trivial = some split position lies strictly inside a token (both neighbours are non-structural, non-whitespace bytes); "
         "distinct by hash of (text, flags, depth). Each evaluation covers all 2-splits of its text under >=2 flag sets.",
    quick=[dict(mode="gen", cases=24000, workers=8, maxbytes=1500),
           dict(mode="soup3", enum=True, size=27930, workers=8)],
    thorough=[dict(mode="gen", cases=1500000, workers=16, maxbytes=3000),
              dict(mode="soup4", enum=True, size=837930, workers=16),
              dict(mode="num6", enum=True, size=1111110, workers=16),
              dict(mode="gen", fuzz=True, secs=300, jobs=8, max_len=512),
              dict(mode="bytes", fuzz=True, secs=300, jobs=8, max_len=80, dict="fuzz/tokener_parse_ex.dict")],
    min_labels=dict(quick=dict(split_inside_token=10000, stream_resumed=2000, src_mutated=3000, src_soup=1200, src_number_soup=600, src_long_token=800)),
    assumptions=["texts <= 400 bytes in the generated modes except the long-token family (one token of 0.6-9 KiB, sampled splits)", "with VALIDATE_UTF8 a chunk ending inside a multi-byte character is an error for that chunk (one-shot on the prefix errs too), so the premise 'more input needed' does not hold and nothing is demanded (label utf8_chunk_mid_char)"],
)

PROPS["C04"] = dict(
    harness="C04_total.cpp", level="exploration",
    technique="stateful property testing of parse/reset histories on arbitrary bytes under ASan/UBSan with exact-size input blocks, differential against a brand-new parser after every reset, exact live-allocation accounting; libFuzzer on the same history decoder",
    level_text="generated histories (valid, mutated, concatenated, token-soup and raw byte chunks; 1..n chunks; flags incl. garbage bits; depth 1..64; "
               "len exact / -1 / < -1; resets after every kind of outcome): every call must satisfy the outcome trichotomy and end<=len, ASan/UBSan "
               "watch every access (inputs are exact-size heap blocks), a reset parser is fed in lock-step with a new one and must agree call by call, "
               "and all memory is released after json_tokener_free",
    level_note="termination is observed as 'every generated case returned'; a libFuzzer timeout is inconclusive, not a violation; the strlen>INT32_MAX arm of the size guard needs a 2 GiB input and is not exercised",
    rule="history of parse calls and resets on one tokener; non-trivial = some call did not succeed, or a text was fed in >1 chunk, or a reset follows a non-success outcome; distinct by hash of (flags, depth, chunk sequence, resets)",
    quick=[dict(mode="hist", cases=150000, workers=8, maxbytes=2500)],
    thorough=[dict(mode="hist", cases=12000000, workers=16, maxbytes=4000),
              dict(mode="hugetoken", enum=True, size=2, workers=2),
              dict(mode="hist", fuzz=True, secs=400, jobs=8, max_len=1024),
              dict(mode="bytes", fuzz=True, secs=400, jobs=8, max_len=256, dict="fuzz/tokener_parse_ex.dict")],
    min_labels=dict(quick=dict(reset_after_nonsuccess=20000, small_depth=20000, garbage_flags=10000)),
    assumptions=["flags are constant over one history", "inputs <= 400 bytes per text in generated modes (the code imposes only INT32_MAX); the thorough tier adds two histories with one token fed up to 2.25 GiB (needs ~6 GiB per worker, skipped below 12 GiB of available memory)"],
)

PROPS["C15"] = dict(
    harness="C15_depth.cpp", level="exploration",
    technique="property testing over (depth limit D, document) with a reference nesting function from an independent parser; exhaustive boundary shapes for every D<=64; hostile deep inputs; one-shot and chunked; ASan on the exactly-D-record stack",
    level_text="for generated D (1..64 mostly, up to 2000) and documents whose maximum nesting lies within +-2 of D (or 2D, or 10^5 levels of hostile "
               "input), acceptance must coincide with the reference nesting function, the value must equal the reference value, and a refusal must be "
               "the nesting-too-deep error positioned at the first value enclosed by D containers; for every D<=64 twelve boundary shapes x "
               "{array,object,mixed} x {D-2,D-1,D} are enumerated completely; D<1 must be refused",
    level_note="'no more stack or memory than the limit implies' is observed through ASan on the level stack of exactly D records and the zero allocation delta; D<=2000 (destruction of accepted trees recurses per level)",
    rule="(D, document, chunking); non-trivial = maximum nesting within 1 of the limit, or hostile deep input; distinct by hash of (text, D)",
    quick=[dict(mode="gen", cases=120000, workers=8, maxbytes=6000),
           dict(mode="boundary", enum=True, size=6912, workers=2)],
    thorough=[dict(mode="gen", cases=6000000, workers=16, maxbytes=12000),
              dict(mode="boundary", enum=True, size=6912, workers=2),
              dict(mode="gen", fuzz=True, secs=300, jobs=8, max_len=2048)],
    min_labels=dict(quick=dict(at_limit=10000, one_over=10000, below_limit=10000, hostile_deep=2000, from_fd_ex=2000, from_fd_ex_multi_block=1500, refused_depth=1000)),
    assumptions=["D <= 2000", "the accepted window for the error offset runs from the end of the preceding token to one byte past the first byte of the first too-deep value"],
)

PROPS["C16"] = dict(
    harness="C16_strict.cpp", level="exploration",
    technique="metamorphic property testing: valid generated document + one documented extension injected at every syntactically possible position (enumerated from the reference lexer's token spans); strict / strict|allow-trailing / default outcomes compared with the original value",
    level_text="for every generated valid document all (extension kind, position) pairs are produced - comments at every inter-token position, "
               "single-quoted values and names, trailing commas, every non-lowercase literal variant, raw control bytes in strings and names, "
               "leading zeros on every number form, exponent markers without digits, trailing bytes - and each must be rejected in strict mode and "
               "accepted in default mode with the original value (value-neutral forms); unmodified documents must pass strict mode (control)",
    level_note="the original value comes from the independent reference parser; positions are enumerated per document, documents are sampled",
    rule="one valid document with all its injections (typically 50-400 modified texts x 3 parser modes); non-trivial = some injection lies at depth >= 1, in a member name or at a first/last element; distinct by document hash",
    quick=[dict(mode="inject", cases=16000, workers=8, maxbytes=1200)],
    thorough=[dict(mode="inject", cases=1600000, workers=16, maxbytes=2500),
              dict(mode="inject", fuzz=True, secs=300, jobs=8, max_len=512)],
    min_labels=dict(quick=dict(block_comment=100000, single_quoted_name=3000, trailing_comma=5000, nonlowercase_literal=5000,
                               raw_control_char=10000, leading_zero=10000, exponent_without_digits=5000, trailing_bytes=100000)),
    assumptions=["documents without U+0000 in member names (C01 known finding)", "the trailing-bytes forms are separated by a space from a final number/literal so they cannot extend the value"],
)

PROPS["C02"] = dict(
    harness="C02_serialize.cpp", level="exploration",
    technique="property testing over API-built trees x formatting flags with an independent RFC 8259 parser + exact rounding judge as oracle, json-c round trip (equal, re-serialise byte-identical) as second oracle; exhaustive one-byte strings x 64 flag sets, binade x mantissa grid of doubles, powers of ten",
    level_text="generated trees (arbitrary byte strings incl. NUL/control/invalid UTF-8, int64/uint64 boundaries, finite doubles over all binades, "
               "retained number text, nesting) serialised under generated flag sets (every 25th case under all 64): the text must be accepted by the "
               "independent parser and denote the tree exactly, the reported length must match, and for non-colour flags json-c must re-parse it (default "
               "and strict) to an equal tree that re-serialises byte-identically",
    level_note="trusts /verif/model's reference parser and rounding judge; new_double_s texts are generated as valid non-integer number texts denoting the node's double (the caller's obligation per json_object.h)",
    rule="(tree, flag sets); non-trivial = the tree has a double, a string needing an escape, or nesting >= 2; distinct by hash of (tree, first two flag sets)",
    quick=[dict(mode="trees", cases=100000, workers=8, maxbytes=2500),
           dict(mode="bytes1", enum=True, size=16384, workers=4),
           dict(mode="pow10", enum=True, size=11700, workers=4),
           dict(mode="dblgrid", enum=True, size=98256, workers=8)],
    thorough=[dict(mode="trees", cases=4000000, workers=16, maxbytes=5000),
              dict(mode="bytes1", enum=True, size=16384, workers=4),
              dict(mode="pow10", enum=True, size=11700, workers=4),
              dict(mode="dblgrid", enum=True, size=98256, workers=8),
              dict(mode="trees", fuzz=True, secs=300, jobs=8, max_len=2048)],
    min_labels=dict(quick=dict(has_double=20000, needs_escape=15000, embedded_nul=3000, invalid_utf8=5000, uint64_node=5000, retained_text=3000, nesting_ge2=10000, all64=1500, wide_container=2000)),
    assumptions=["finite doubles only (NaN/Infinity are not JSON; the serialiser's non-standard output for them is outside the property)",
                 "member names are C strings (no NUL) as the API requires"],
)

PROPS["C10"] = dict(
    harness="C10_numeric.cpp", level="exploration",
    technique="property testing of every accessor on generated nodes against a reference evaluated in __int128 / exact bit decomposition / big-integer rounding judge; complete boundary lattices (integers, doubles, decorated numeric strings, increment pairs); UBSan float-cast/signed-overflow checks as part of the oracle",
    level_text="nodes of every kind (int64/uint64 around every 2^31/2^32/2^53/2^63/2^64 bound, random 64-bit patterns, doubles incl. "
               "neighbours of every bound, subnormals, infinities, NaN, numeric and non-numeric strings with whitespace/sign/junk decorations) are read "
               "through all five accessors and compared (value and documented errno) with an exact reference; set-then-get, wrong-type setters and "
               "increments (exact sum in __int128, saturation at INT64_MIN/UINT64_MAX) likewise; all lattices are enumerated completely",
    level_note="where json_object.h is silent or self-contradictory (errno in the open interval next to a bound, string->double overflow) only the value or membership in the documented alternatives is required",
    rule="sequence of <=8 accessor/increment/setter probes; non-trivial = contains a double, string or uint64 node or an increment; distinct by hash of the probe list",
    quick=[dict(mode="gen", cases=150000, workers=8),
           dict(mode="lattice_int", enum=True, size=154, workers=1),
           dict(mode="lattice_dbl", enum=True, size=256, workers=1),
           dict(mode="lattice_str", enum=True, size=924, workers=1),
           dict(mode="lattice_inc", enum=True, size=11858, workers=2)],
    thorough=[dict(mode="gen", cases=16000000, workers=16),
              dict(mode="lattice_int", enum=True, size=154, workers=1),
              dict(mode="lattice_dbl", enum=True, size=256, workers=1),
              dict(mode="lattice_str", enum=True, size=924, workers=1),
              dict(mode="lattice_inc", enum=True, size=11858, workers=2),
              dict(mode="gen", fuzz=True, secs=240, jobs=8, max_len=256)],
    min_labels=dict(quick=dict(double_node=30000, string_node=30000, increment=30000, setters=15000)),
    assumptions=["strings for get_double are drawn from the decimal subset of strtod's grammar (no hex floats / inf / nan spellings, which the header does not mention)"],
)

PROPS["C11"] = dict(
    harness="C11_strings.cpp", level="exploration",
    technique="stateful model-based property testing (byte-string model) of create/set histories with lengths steered across the inline-storage threshold, injected allocation failure, ASan + exact allocation accounting; exhaustive length triples 0..39",
    level_text="after creation and each of up to 30 set_string / set_string_len calls (arbitrary bytes incl. NUL and >=0x80, sources in exact-size heap blocks) "
               "length, bytes and terminator are compared with a byte-string model; equality with a fresh node, deep copy and serialisation (through the "
               "independent parser) must carry all bytes; negative lengths and a failed allocation must fail and leave the contents intact; every length "
               "triple a->b->c in 0..39 is enumerated",
    level_note="storage transitions are observed through ASan (use after free, overflow) and the live-allocation delta, not by reading private fields",
    rule="history of sets; non-trivial = >=2 crossings of the 7/8-byte inline threshold or grow -> shrink to 0 -> grow; distinct by hash of the operation list",
    quick=[dict(mode="hist", cases=120000, workers=8),
           dict(mode="lens", enum=True, size=64000, workers=4)],
    thorough=[dict(mode="hist", cases=12000000, workers=16),
              dict(mode="lens", enum=True, size=64000, workers=4),
              dict(mode="hist", fuzz=True, secs=240, jobs=8, max_len=512)],
    min_labels=dict(quick=dict(two_threshold_crossings=30000, grow_shrink0_grow=10000, failed_set=20000)),
    assumptions=["lengths <= 5000 (the code refuses only >= INT_MAX-1)"],
)

PROPS["C07"] = dict(
    harness="C07_array.cpp", level="exploration",
    technique="stateful model-based property testing (vector-with-null-gaps model, element identity and destruction tracking through user-data callbacks) with boundary-biased and SIZE_MAX-adjacent arguments; exhaustive 6-step operation sequences on tiny arrays; ASan",
    level_text="after every operation of a generated history (append, put/insert at, inside, at and beyond the end, delete ranges incl. overflowing counts, "
               "shrink, sort, binary search, reads past the end and at huge indices; initial capacity 0..40) the length, the identity of every element "
               "and the set of destroyed elements equal those of a list model; refused operations must change nothing and leave the value with the caller",
    level_note="indices in (len+600, SIZE_MAX/8) are not generated: whether a multi-GiB realloc succeeds is the machine's answer; >= SIZE_MAX/8 must be refused",
    rule="operation history on one array; non-trivial = a reallocation happened AND the history has a null gap, an overwrite of an occupied slot or a multi-element delete; distinct by hash of the operation list; the same rule for histories on a bare array_list (mode 'al')",
    quick=[dict(mode="hist", cases=100000, workers=8),
           dict(mode="small", enum=True, size=46656, workers=4),
           dict(mode="al", cases=60000, workers=4)],
    thorough=[dict(mode="hist", cases=8000000, workers=16),
              dict(mode="small", enum=True, size=46656, workers=4),
              dict(mode="al", cases=4000000, workers=16),
              dict(mode="hist", fuzz=True, secs=240, jobs=8, max_len=512),
              dict(mode="al", fuzz=True, secs=120, jobs=8, max_len=512)],
    min_labels=dict(quick=dict(null_gap=20000, refused=20000, realloc=20000, overwrite=15000, sort=10000, bsearch=3000, del_range=4000, huge_index=8000, zero_capacity=10000,
                               al_null_gap=10000, al_refused=10000, al_overwrite=8000, al_del_range=8000, al_sort=8000, al_grew=8000)),
    assumptions=["elements are int nodes or null; the comparator orders by value with nulls first",
                 "mode 'al' drives arraylist.h directly with opaque tokens and a counting free function (no json_object involved)"],
)

PROPS["C17"] = dict(
    harness="C17_visit.cpp", level="exploration",
    technique="property testing over (tree, return-code schedule) against a reference traversal written from json_visit.h; the full call log (node identity, flags, parent, key/index) and the result are compared; per-tree enumeration of every single deviation",
    level_text="generated trees (nulls, empty containers, nesting to 12) are visited with a callback that returns a generated code at generated call numbers "
               "(CONTINUE/SKIP/POP/STOP/ERROR and invalid codes, biased to the root, the last calls and the flagged second visits); the sequence of calls "
               "with node identity, flags, parent and key or index, and the final result must equal the reference traversal; mode 'single' enumerates, "
               "for each generated tree, every single-deviation schedule over 6 codes at every call number < 40",
    level_note="the rule that SKIP on a container also suppresses its flagged second call is not spelled out in json_visit.h; it is taken from tests/test_visit.expected, which pins it",
    rule="(tree, schedule); non-trivial = a non-CONTINUE code was actually returned to the visitor; distinct by hash of (tree, schedule)",
    quick=[dict(mode="gen", cases=120000, workers=8),
           dict(mode="single", cases=3000, workers=8)],
    thorough=[dict(mode="gen", cases=10000000, workers=16),
              dict(mode="single", cases=300000, workers=16),
              dict(mode="gen", fuzz=True, secs=240, jobs=8, max_len=1024)],
    min_labels=dict(quick=dict(deviation_reached=60000, over_1100_skip_or_pop_returns=500, SKIP=20000, POP=20000, STOP=10000, ERROR=10000, INVALID=10000)),
    assumptions=["member order of the built tree is insertion order (C06)"],
)

PROPS["C09"] = dict(
    harness="C09_equal_copy.cpp", level="exploration",
    technique="property testing of json_object_equal against a model equality on plain values over independent / single-deep-mutation / member-permutation / chained pairs and triples (reflexivity, symmetry, transitivity); metamorphic deep-copy checks (equal, text under flag sets, address disjointness, mutate/destroy independence) under ASan",
    level_text="pairs and triples of trees related by a known change (kind change with equal numeric value, int64 vs uint64 node, one ulp, +-0, NaN, "
               "string length/byte/embedded NUL, element swap, member add/remove/rename, member permutation at every level) are compared with a model "
               "equality; deep copies of built, parsed (retained number text) and custom-serialiser trees must be equal, serialise identically under "
               "8 (every 10th case: all 64) flag sets, share no node, and stay unchanged when the other side is mutated in place or destroyed",
    level_note="equality of denoted values is the header's definition (kind-strict, IEEE == on doubles); integer signedness of a copy is observable only through serialisation and is covered that way",
    rule="equal mode: (a,b,c) with their relation; non-trivial = the single mutation sits at depth >= 2, or the pair differs only in member order / integer signedness, or is a two-mutation chain; copy mode: every case counts; distinct by hash of the trees",
    quick=[dict(mode="equal", cases=100000, workers=8), dict(mode="copy", cases=40000, workers=8)],
    thorough=[dict(mode="equal", cases=8000000, workers=16), dict(mode="copy", cases=3000000, workers=16),
              dict(mode="equal", fuzz=True, secs=200, jobs=8, max_len=1024), dict(mode="copy", fuzz=True, secs=200, jobs=8, max_len=1024)],
    min_labels=dict(quick=dict(mutation=30000, mutation_depth_ge2=3000, mixed_string_storage=40000, permutation=15000, chain=10000, src_parsed=8000, src_custom_serializer=5000)),
    assumptions=["member names without NUL (API limit)"],
)

PROPS["C06"] = dict(
    harness="C06_object.cpp", level="exploration", config="asanseed",
    technique="stateful model-based property testing (insertion-ordered map model) at the json_object level (all iteration forms, both string hash functions, pinned hash seeds, colliding/empty/long keys, up to 2000 live keys, deletion during foreach) and at the lh_table level with a harness-controlled hash; exhaustive small scopes over 3 keys on tables of size 1..4",
    level_text="after every operation of a generated history the length, the lookup of the touched key and (at probes and at the end) every iteration form - both "
               "foreach macros, the iterator API, PLAIN serialisation read back by the independent parser, json_c_visit - must equal the ordered-map model; "
               "lh_table histories with a harness hash that forces collisions, wrap-around and tombstones are checked forward and backward after every step; "
               "all sequences of <=5 (thorough: <=7) operations over 3 keys on tables of size 1..4 under every home-slot assignment are enumerated",
    level_note="the hash seed is pinned per worker process through the tree's own OVERRIDE_GET_RANDOM_SEED build option (different seeds per worker and per VERIF_SEED); deletion during iteration is exercised with json_object_object_foreach, the form the header documents as safe",
    rule="operation history on one object / table; non-trivial = the table grew, or an insert followed a delete (probing across a tombstone), or keys were deleted during foreach; distinct by hash of the operation list and hash function",
    quick=[dict(mode="obj", cases=40000, workers=8, maxbytes=6000),
           dict(mode="lh", cases=100000, workers=4),
           dict(mode="lh_small5", enum=True, size=6642900, workers=8)],
    thorough=[dict(mode="obj", cases=3000000, workers=16, maxbytes=12000),
              dict(mode="lh", cases=8000000, workers=16),
              dict(mode="lh_small7", enum=True, size=538083900, workers=16),
              dict(mode="obj", fuzz=True, secs=240, jobs=8, max_len=2048)],
    min_labels=dict(quick=dict(many_keys=1000, table_grew=4000, insert_after_delete=20000, delete_during_foreach=5000, constant_key=10000, hash_perllike=8000, hash_default=15000)),
    assumptions=["member names without NUL (API limit)", "KEY_IS_NEW is only passed when the model says the key is new, CONSTANT_KEY only with storage that outlives the object (the documented preconditions)"],
)

PROPS["C12"] = dict(
    harness="C12_pointer.cpp", level="exploration",
    technique="property testing against an RFC 6901 reference evaluator on a plain value model: per generated tree every node path is enumerated, plus mutated/dangling pointers, set histories with ownership tracking, printf-style variants; identity of the returned node is checked by an independent accessor walk",
    level_text="trees whose keys come from an adversarial pool ('', '/', '~', '~0', '~1', '~01', 'a/b', digits, '00', '-', '%s', long numbers ...) with null "
               "members and elements: the escaped pointer to every node must resolve to exactly that node (null included); mutated pointers (dropped or "
               "doubled '/', raw '~', '~2', leading zeros, '+1', '-', empty token, index = length, huge index, path through a scalar, no leading '/') must "
               "succeed exactly when the reference does and otherwise fail with ENOENT/EINVAL leaving the tree unchanged; sets are compared with a "
               "reference set (tree equality after every set, get-after-set identity, ownership on success and failure); getf/setf must agree with get/set",
    level_note="for an array index beyond the length json_pointer.h documents storage via json_object_array_put_idx (null padding); that documented behaviour is accepted",
    rule="tree + all its node paths + mutated pointers + set history; non-trivial = some pointer has >= 2 tokens or needs unescaping, or a set was performed; distinct by tree hash",
    quick=[dict(mode="gen", cases=40000, workers=8), dict(mode="fmtlen", enum=True, size=1200, workers=2)],
    thorough=[dict(mode="gen", cases=3000000, workers=16), dict(mode="fmtlen", enum=True, size=1200, workers=2), dict(mode="gen", fuzz=True, secs=300, jobs=8, max_len=1024)],
    min_labels=dict(quick=dict(set=50000, mutated_pointer_fails=100000, mutated_pointer_resolves=6000)),
    assumptions=["root is not JSON null (json_pointer_get refuses a NULL object)", "set indices in (length+3, SIZE_MAX/16) are not generated (would need real memory)"],
)

PROPS["C13"] = dict(
    harness="C13_patch.cpp", level="exploration",
    technique="model-based property testing against an RFC 6902 reference applier on plain values: operation sequences generated against the evolving reference document (valid and deliberately failing), corrupted/malformed patches, both calling forms; invariants: patch document unchanged, result independent of patch and source under in-place mutation; ASan + allocation accounting; libFuzzer on generated and parsed patches",
    level_text="documents with adversarial keys and patches of 1..9 operations whose paths are chosen in the reference's current state (added-then-modified "
               "locations, copies then mutated, moves inside one array, onto itself, into a child, string-prefix-but-not-location-prefix, escaped keys, '-', "
               "index = length, nulls, root replacement/removal): json_patch_apply must succeed exactly when the reference does, with the same document "
               "(member order not significant), or fail reporting the index of the first failing operation; the patch document must be bit-identical "
               "afterwards, also after every container of the result has been mutated in place; corrupted patches (wrong types, missing/null fields, "
               "unknown ops, non-object elements, non-array patch) must fail cleanly",
    level_note="test uses the library's own value equality (C09: integer and double are different kinds); once the root is removed or JSON null only 'add' at \"\" is exercised (json-c represents both as a NULL root; neither the RFC nor json_patch.h settles other operations there)",
    rule="(document, patch, calling form); non-trivial = a later op's path passes through a location written by an earlier op, or a token needs escaping, or an array-end index is used, or the patch is corrupted; distinct by hash of (document, patch)",
    quick=[dict(mode="conform", cases=60000, workers=8, maxbytes=3000), dict(mode="malformed", cases=40000, workers=8, maxbytes=3000)],
    thorough=[dict(mode="conform", cases=4000000, workers=16, maxbytes=5000), dict(mode="malformed", cases=2000000, workers=16, maxbytes=5000),
              dict(mode="conform", fuzz=True, secs=300, jobs=6, max_len=1024), dict(mode="malformed", fuzz=True, secs=300, jobs=5, max_len=1024),
              dict(mode="parsed", fuzz=True, secs=300, jobs=5, max_len=512)],
    min_labels=dict(quick=dict(escaped_token=10000, array_end=8000, later_op_through_written_location=4000, failing_op=10000, corrupted=30000)),
    assumptions=["member names and pointer strings without NUL (C strings in the API)"],
)

PROPS["C05"] = dict(
    harness="C05_ownership.cpp", level="exploration",
    technique="stateful model-based property testing of ownership: the harness keeps a ledger of the references it owns and checks, after every API call, the reachability invariant (tracked nodes not yet destroyed == tracked nodes reachable through public accessors from owned references), exactly-once destruction callbacks, put()==1 iff freed; ASan + exact allocation accounting",
    level_text="histories of up to 40 calls over a pool of handles - every constructor, get, put, object add/add_ex/replace/del, array add/put/insert/del "
               "(occupied slots, beyond the end, ranges), set_userdata / set_serializer replacing a callback, deep copy with a tracking shallow-copy "
               "callback (and the documented failure of the default one), json_pointer_set (incl. replacing the root), json_patch_apply, and operations "
               "chosen to fail (self-add, absurd index, dangling pointer): after every call the set of live tracked nodes must equal the set reachable from "
               "references the harness owns, callbacks fire once, put reports 'freed' exactly when the node died, and at the end nothing remains allocated",
    level_note="the generator obeys the documented ownership rules by construction (transfers only references it owns, takes an extra get before sharing, never builds a cycle); it does not predict how an operation rearranges nodes, only who may still reach them",
    rule="call history; non-trivial = it replaces/deletes an entry whose value has an outstanding harness reference, or overwrites an occupied array slot, or contains a failed transfer; distinct by hash of the call list",
    quick=[dict(mode="hist", cases=50000, workers=8, maxbytes=3000)],
    thorough=[dict(mode="hist", cases=4000000, workers=16, maxbytes=8000), dict(mode="hist", fuzz=True, secs=300, jobs=8, max_len=1024)],
    min_labels=dict(quick=dict(replace_or_delete_of_shared_value=1800, object_resized_with_constant_and_duplicated_keys=800, put_idx_over_occupied_slot=700, failed_transfer=5000, cascade=8000, userdata_replaced=8000, deep_copy=5000, pointer_set=4000, patch=5000)),
    assumptions=["histories follow the documented ownership rules; misuse (double put, cycles) is outside the property"],
)

PROPS["C08"] = dict(
    harness="C08_oom.cpp", level="fault_enumeration",
    technique="fault enumeration over generated workloads: each workload runs once fault-free under a counting allocator (link-time --wrap of malloc/calloc/realloc/strdup/vasprintf/newlocale/duplocale), then once per allocation index with exactly that call failing, plus sampled double faults; differential oracle against the fault-free result, caller-owned objects dumped before/after, exact live-allocation accounting, ASan/UBSan",
    level_text="for every generated workload (one-shot, chunked and convenience parse, tokener creation, tree construction, object add incl. table growth and "
               "replacement, array add/put/insert incl. growth, set_string growth, deep copy, first and repeated serialisation under a flag set, pointer "
               "set/setf/get/getf, patch in both forms, fd read, double format) EVERY allocation index k is failed in turn: the operation must either give "
               "exactly its fault-free result or report failure through its channel (NULL, negative/zero return, out-of-memory status); objects the "
               "caller owns must dump identically and stay usable; no allocation may remain live after release",
    level_note="exhaustive per workload over the allocation index (single faults); workloads themselves are sampled; wrapped entry points are the ones json-c calls directly (glibc-internal allocations are not failed)",
    rule="one evaluation = one workload with all its allocation indices (labels fault_reported + fault_absorbed count the individual faulted runs); non-trivial = the workload has at least one fault index > 0 (partial state to unwind) - counted per workload, distinct by workload hash; the number of individual faulted runs is labels.fault_reported + labels.fault_absorbed",
    quick=[dict(mode="faults", cases=4000, workers=8, maxbytes=2000)],
    thorough=[dict(mode="faults", cases=300000, workers=16, maxbytes=4000), dict(mode="faults", fuzz=True, secs=300, jobs=8, max_len=512)],
    min_labels=dict(quick=dict(fault_reported=12000, fault_absorbed=500, double_fault=3000, parse=200, serialize=150, patch_inplace=80, object_add=150, printbuf=60, to_fd=50, constructors=30, object_add_ex=50)),
    assumptions=["only allocation calls made directly by json-c are failed", "at most 3000 indices per workload"],
)

PROPS["C20"] = dict(
    harness="C20_fdio.cpp", level="fault_enumeration", wrap_io=True,
    technique="fault/short-transfer enumeration: read() and write() are interposed at link time and follow generated scripts (per-call transfer sizes 1..request, injected EIO/EINTR/ENOSPC/EAGAIN/EBADF at call j); differential oracle against one in-memory parse call and against the serialisation; exhaustive chunk sizes and error positions for a 64-byte document",
    level_text="documents (generated valid texts, 4-20 KB documents spanning several 4096-byte reads and ending exactly at a buffer boundary, possibly-invalid "
               "texts, empty input) are delivered through scripted short reads, with and without an injected error, under generated depth limits; trees are "
               "written through scripted short writes with and without an injected error: the read result must equal json_tokener_parse_ex on the same "
               "bytes in one call with a fresh parser of that depth, the written bytes must equal the serialisation exactly once and in order, every failure "
               "must be reported with a fresh retrievable message, and no descriptor or allocation may leak; unopenable paths and a memory-file round trip cover the file variants",
    level_note="a write() returning 0 for a non-empty request is not scripted (not a condition POSIX produces for regular descriptors; the loop would not terminate)",
    rule="(document or tree, transfer script); non-trivial = the script splits transfers or injects an error; distinct by hash of the case",
    quick=[dict(mode="gen", cases=30000, workers=8, maxbytes=3000), dict(mode="small", enum=True, size=4290, workers=2)],
    thorough=[dict(mode="gen", cases=2500000, workers=16, maxbytes=5000), dict(mode="small", enum=True, size=4290, workers=2),
              dict(mode="gen", fuzz=True, secs=240, jobs=8, max_len=1024)],
    min_labels=dict(quick=dict(read_valid=5000, read_long=2000, read_error_injected=2000, write_error_injected=2000, write_long=1000, file_variants=1500)),
    assumptions=["EINTR is treated like any other read/write error (json_util.c does not retry; the property only demands that a failing write/read is reported)"],
)

PROPS["C14"] = dict(
    harness="C14_locale.cpp", level="exploration", needs_locale=True,
    technique="differential/metamorphic property testing across locale regimes: a synthetic comma-decimal locale (built offline with localedef, selected through LOCPATH) installed globally and/or per thread; parse results and serialised bytes compared with the C-locale results of the same process; thread/global locale, printf behaviour and live locale objects checked around every parse call on every return path; exhaustive outcome-class x regime x split table",
    level_text="texts and trees containing non-integers are parsed (one-shot, split right behind '.'/'e', random splits, byte-wise) and serialised (all flag "
               "sets, custom double formats) under {comma global, comma per-thread over C global, C per-thread over comma global}; value dumps, end offsets, "
               "status codes and output bytes must equal the C-locale run; around EVERY json_tokener_parse_ex call - success, continue and each error code "
               "incl. depth, size, utf8 and injected out-of-memory - the thread locale handle, the global LC_NUMERIC name, printf's decimal separator and the "
               "number of live locale objects must be unchanged; the 24 outcome classes (incl. malformed floats that reach the text-to-double conversion) x 4 regimes x 3 chunkings are enumerated completely",
    level_note="the comma locale is synthetic (ASCII charmap, decimal_point ',', thousands_sep '.'); only LC_NUMERIC matters to the code under test; newlocale/duplocale/freelocale are counted through link-time interposition",
    rule="(text or tree, regimes, chunking); every case contains a non-integer; non-trivial = all generated cases (each compares 3 non-C regimes); distinct by hash of (text, chunking, flags) or (tree, flags)",
    quick=[dict(mode="gen", cases=24000, workers=8, maxbytes=2000), dict(mode="classes", enum=True, size=288, workers=1)],
    thorough=[dict(mode="gen", cases=2400000, workers=16, maxbytes=4000), dict(mode="classes", enum=True, size=288, workers=1),
              dict(mode="gen", fuzz=True, secs=240, jobs=8, max_len=512)],
    min_labels=dict(quick=dict(parse=8000, serialize=6000, split_inside_number=2000, parse_verbose=1000)),
    assumptions=["glibc's uselocale/newlocale semantics (HAVE_USELOCALE configuration, the one this tree configures to here)"],
)

_TSAN_ENV = {"TSAN_OPTIONS": "halt_on_error=0:exitcode=0:suppress_equal_stacks=0:suppress_equal_addresses=0:report_signal_unsafe=0:history_size=4:second_deadlock_stack=0"}
PROPS["C18"] = dict(
    harness="C18_threads.cpp", level="exploration", config="plainthr", wrap_alloc=False, confirm_runs=3,
    mode_config={"refcount": "plainthr", "refcount_tsan": "tsanthr", "refcount_asan": "asanthr", "seed": "plainthr"}, replay_env=_TSAN_ENV,
    technique="generated thread programs on CPU-pinned workers with an invariant over the history (exact final reference counts, destroy-exactly-once, put()==1 exactly once per node, private-tree results) in a plain threaded build, ThreadSanitizer's happens-before race detection on the same programs in a -fsanitize=thread build, each run validated by a canary race; seed publication with a harness-owned schedule (the tree's own OVERRIDE_GET_RANDOM_SEED hook holds all threads inside the initialisation branch with different candidate seeds) in a fresh process per trial",
    level_text="N=2..16 pinned threads start from a spin barrier and run generated get/put/read patterns on 1..4 shared nodes (each thread also owns a "
               "pre-acquired reference it releases last; the main thread releases its reference concurrently or last), optionally interleaved with building, "
               "serialising, re-parsing and freeing private trees: every node must be destroyed exactly once, only after the last release, 'freed' must be "
               "reported exactly once per node, and ThreadSanitizer must not report a race during the program although it does report the canary race; "
               "for the seed, every trial is a fresh process in which all threads race to publish different seeds and every early and late hash of a key "
               "must equal the process's final one",
    level_note="for the reference counts the harness does not own the scheduler: interleavings are sampled by contention and repetition, with TSan as a schedule-insensitive race oracle; a case whose canary shows no lost update / no TSan report is not counted (label not_explored_*)",
    rule="one generated thread program (or one seed trial); counted only when its canary proved real concurrency (refcount) or at least two threads were inside the seed initialisation together (seed); distinct by hash of the program / trial parameters",
    quick=[dict(mode="refcount", cases=24, workers=1, config="plainthr"),
           dict(mode="refcount_tsan", cases=24, workers=1, config="tsanthr", env=_TSAN_ENV),
           dict(mode="refcount_asan", cases=12, workers=1, config="asanthr"),
           dict(mode="seed", cases=200, workers=1, config="plainthr")],
    thorough=[dict(mode="refcount", cases=400, workers=1, config="plainthr"),
              dict(mode="refcount_tsan", cases=500, workers=1, config="tsanthr", env=_TSAN_ENV),
              dict(mode="refcount_asan", cases=200, workers=1, config="asanthr"),
              dict(mode="seed", cases=2000, workers=1, config="plainthr")],
    min_labels=dict(quick=dict(canary_ok=40, seed_race_all_threads=100, cold_start_from_count_1=10)),
    assumptions=["HAVE_ATOMIC_BUILTINS as configured by cmake for this tree; -DENABLE_THREADING=1 selects the __sync paths",
                 "a fault that needs one specific interleaving that is neither a data race nor likely under contention can be missed"],
)

# ---- oracles and entry points added while closing the seeded rounds 3-9 (DESIGN 10.8-10.14) ----
_ADD = {
    "C01": "; a sample of the valid texts also goes through json_object_from_fd / json_object_from_file on a memory file and on a pipe fed in small pieces",
    "C03": "; the first document is also compared with ONE call on the whole text (same value; an early stop only where nothing but whitespace/comments follows)",
    "C04": "; json_tokener_parse / json_tokener_parse_verbose must agree with one parse_ex(len=-1) call; thorough tier: one token fed past INT_MAX bytes",
    "C05": "; also delete callbacks registered with a NULL cookie, the same node in several slots, objects grown past a resize with constant and duplicated keys",
    "C06": "; the lh level also checks the entry free function (every entry handed over exactly once), the constant-key flag across resizes, lookup_entry_w_hash, lh_foreach/_safe with deletions and the kptr/kchar constructors; the visitor deletes the member it is shown; the entropy hook answers -1 and 0 before a seed; the hash selection is switched mid-history",
    "C07": "; mode 'al' drives arraylist.h alone with a counting free function",
    "C16": "; a strict tokener reused after json_tokener_reset, STRICT|VALIDATE_UTF8, json_tokener_parse_verbose and the descriptor entry points must give the same verdicts",
    "C17": "; every tree is traversed a second time (CONTINUE everywhere) and must give the full reference traversal; wide nodes with more than 1100 SKIP/POP returns",
    "C18": "; references are also held and released through thread-private containers, threads install their own double formats, one node carries more than 2^31 references, and the string-hash selection is switched and switched back in the seed trials",
    "C20": "; reads also go through json_object_from_file on a real memory file whose read() calls are shortened / failed per script, and documents get byte-order-mark prefixes",
}
for _k, _v in _ADD.items():
    PROPS[_k]["level_text"] += _v
